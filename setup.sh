#!/bin/bash
# Builds the gosym engine offline from /verif/engine into /verif/bin.
set -e
export GOFLAGS=-mod=mod GOPROXY=off GOSUMDB=off GOTOOLCHAIN=local
cd /verif/engine
mkdir -p /verif/bin
go build -o /verif/bin/gosym .
