package main

import (
	"fmt"
	"go/types"
	"strconv"
	"strings"
)

// invoke calls method name on an interface value.
func (p *Path) invoke(fr *frame, recv iface, name string, args ...value) value {
	if recv.t == nil {
		panic(runtimePanic{"invalid memory address or nil pointer dereference (method call on nil interface)"})
	}
	ms := p.eng.prog.MethodSets.MethodSet(recv.t)
	for i := 0; i < ms.Len(); i++ {
		sel := ms.At(i)
		if sel.Obj().Name() == name {
			fn := p.eng.prog.MethodValue(sel)
			if fn == nil {
				break
			}
			return p.call(fr, fr.callpos, fn, append([]value{recv.v}, args...))
		}
	}
	panic(unsupported{fmt.Sprintf("invoke: type %v has no method %s", recv.t, name)})
}

func (p *Path) hasMethod(t types.Type, name string) bool {
	if t == nil {
		return false
	}
	ms := p.eng.prog.MethodSets.MethodSet(t)
	for i := 0; i < ms.Len(); i++ {
		if ms.At(i).Obj().Name() == name {
			return true
		}
	}
	return false
}

func typeString(t types.Type) string {
	return types.TypeString(t, func(p *types.Package) string { return p.Name() })
}

var pow10 = func() [20]uint64 {
	var r [20]uint64
	r[0] = 1
	for i := 1; i < 20; i++ {
		r[i] = r[i-1] * 10
	}
	return r
}()

// decimalOf renders an integer term in decimal. A symbolic value forks on sign and
// digit count; the digits themselves are terms.
func (p *Path) decimalOf(t *Term, signed bool) []*Term {
	tc := p.tc
	if t.IsConst() {
		var s string
		if signed {
			s = strconv.FormatInt(sext64(t.val, t.w), 10)
		} else {
			s = strconv.FormatUint(t.val, 10)
		}
		return p.bytesOf(Str{s: s})
	}
	w := t.w
	var out []*Term
	abs := t
	if signed {
		if p.branch(tc.Cmp(OpSLt, t, tc.BV(w, 0))) {
			out = append(out, tc.BV(8, '-'))
			abs = tc.Neg(t)
		}
	}
	maxDigits := 20
	switch w {
	case 8:
		maxDigits = 3
	case 16:
		maxDigits = 5
	case 32:
		maxDigits = 10
	}
	k := 1
	for ; k < maxDigits; k++ {
		if pow10[k] > mask(w) {
			break
		}
		if p.branch(tc.Cmp(OpULt, abs, tc.BV(w, pow10[k]))) {
			break
		}
	}
	// The k digits are fresh variables D (each 0..9, leading digit non-zero unless
	// k == 1) tied to the value by the Horner relation abs == ((D1*10+D2)*10+...),
	// computed in 64 bits exactly as strconv.ParseUint accumulates it. For a given
	// value and digit count the digits are unique, so asserting the relation does
	// not restrict the value. (Dividing instead makes every later query on the
	// digits a bvudiv/bvurem problem.)
	p.decSeq++
	abs64 := tc.ZExt(abs, 64)
	acc := tc.BV(64, 0)
	for i := 0; i < k; i++ {
		d := tc.Var(fmt.Sprintf("$dec%d.%d", p.decSeq, i), 8)
		p.addPC(tc.Cmp(OpULe, d, tc.BV(8, 9)))
		if i == 0 && k > 1 {
			p.addPC(tc.Ne(d, tc.BV(8, 0)))
		}
		mul := tc.Bin(OpMul, acc, tc.BV(64, 10))
		if i > 0 {
			// implied: the shifted prefix does not wrap either
			p.addPC(tc.Cmp(OpULt, mul, tc.BV(64, pow10[i+1])))
		}
		acc = tc.Bin(OpAdd, mul, tc.ZExt(d, 64))
		// implied bound on the prefix value (helps the solver rule out wrap-around)
		if i > 0 {
			p.addPC(tc.Cmp(OpULt, acc, tc.BV(64, pow10[i+1])))
		}
		out = append(out, tc.Bin(OpAdd, d, tc.BV(8, '0')))
	}
	p.addPC(tc.Eq(abs64, acc))
	return out
}

// formatOperand renders one operand for %v / %s.
func (p *Path) formatOperand(fr *frame, verb byte, arg value) []*Term {
	it, ok := arg.(iface)
	if !ok {
		panic(unsupported{"fmt operand is not an interface value"})
	}
	if it.t == nil {
		if verb == 'T' {
			return p.bytesOf(Str{s: "<nil>"})
		}
		if verb == 's' {
			return p.bytesOf(Str{s: "%!s(<nil>)"})
		}
		return p.bytesOf(Str{s: "<nil>"})
	}
	if verb == 'T' {
		return p.bytesOf(Str{s: typeString(it.t)})
	}
	if verb == 'd' {
		if _, signed, ok := intInfo(it.t); ok {
			return p.decimalOf(it.v.(*Term), signed)
		}
		panic(unsupported{fmt.Sprintf("%%d of %v", it.t)})
	}
	if verb == 'q' {
		s, ok := it.v.(Str)
		if !ok {
			panic(unsupported{fmt.Sprintf("%%q of %v", it.t)})
		}
		if c, ok := s.Concrete(); ok {
			return p.bytesOf(Str{s: strconv.Quote(c)})
		}
		// symbolic: plain printable ASCII without quote/backslash is quoted verbatim
		plain := p.tc.True()
		for _, b := range s.b {
			ok := p.tc.And(p.inRange(b, 0x20, 0x7e), p.tc.And(p.tc.Ne(b, p.tc.BV(8, '"')), p.tc.Ne(b, p.tc.BV(8, '\\'))))
			plain = p.tc.And(plain, ok)
		}
		out := []*Term{p.tc.BV(8, '"')}
		if !p.branch(plain) {
			// needs escapes: the quoted text is approximated by unconstrained bytes of
			// the unescaped length (only ever used inside error messages)
			p.note("approximation: %q of a symbolic string that needs escaping rendered as unconstrained bytes")
			p.decSeq++
			for i := range s.b {
				out = append(out, p.tc.Var(fmt.Sprintf("$quoted%d.%d", p.decSeq, i), 8))
			}
			return append(out, p.tc.BV(8, '"'))
		}
		out = append(out, s.b...)
		return append(out, p.tc.BV(8, '"'))
	}
	// %v, %s: error and Stringer take precedence
	if verb == 'v' || verb == 's' {
		for _, mname := range []string{"Error", "String"} {
			if p.hasMethod(it.t, mname) {
				if isPointerLike(it.v) && isNilValue(it.v) {
					return p.bytesOf(Str{s: "<nil>"})
				}
				r := p.invoke(fr, it, mname)
				return p.bytesOf(r.(Str))
			}
		}
	}
	switch v := it.v.(type) {
	case Str:
		return p.bytesOf(v)
	case *Term:
		if v.w == 0 {
			if p.branch(v) {
				return p.bytesOf(Str{s: "true"})
			}
			return p.bytesOf(Str{s: "false"})
		}
		_, signed, _ := intInfo(it.t)
		if verb == 's' {
			panic(unsupported{"%s of integer"})
		}
		return p.decimalOf(v, signed)
	case []value:
		if verb == 'v' {
			// []string and friends: [a b c]
			out := []*Term{p.tc.BV(8, '[')}
			st, ok := it.t.Underlying().(*types.Slice)
			if !ok {
				break
			}
			for i, e := range v {
				if i > 0 {
					out = append(out, p.tc.BV(8, ' '))
				}
				out = append(out, p.formatOperand(fr, 'v', iface{t: st.Elem(), v: e})...)
			}
			return append(out, p.tc.BV(8, ']'))
		}
	case rtype:
		return p.bytesOf(Str{s: typeString(v.t)})
	case float64:
		return p.bytesOf(Str{s: fmt.Sprint(v)})
	}
	if inner, ok := it.v.(iface); ok {
		return p.formatOperand(fr, verb, inner)
	}
	panic(unsupported{fmt.Sprintf("fmt %%%c of %v (%T)", verb, it.t, it.v)})
}

func isPointerLike(v value) bool {
	switch v.(type) {
	case *value, *smap, []value, *schan:
		return true
	}
	return false
}

// sprintf implements the subset of fmt.Sprintf the anchored code uses. It returns
// the formatted string and the operand of the first %w (if any).
func (p *Path) sprintf(fr *frame, format Str, args []value) (Str, value) {
	f, ok := format.Concrete()
	if !ok {
		panic(unsupported{"symbolic format string"})
	}
	var out []*Term
	var wrapped value
	ai := 0
	for i := 0; i < len(f); i++ {
		c := f[i]
		if c != '%' {
			out = append(out, p.tc.BV(8, uint64(c)))
			continue
		}
		i++
		if i >= len(f) {
			out = append(out, p.bytesOf(Str{s: "%!(NOVERB)"})...)
			break
		}
		verb := f[i]
		if verb == '%' {
			out = append(out, p.tc.BV(8, '%'))
			continue
		}
		if strings.IndexByte("svdqTw", verb) < 0 {
			panic(unsupported{fmt.Sprintf("fmt verb %%%c in %q", verb, f)})
		}
		if ai >= len(args) {
			out = append(out, p.bytesOf(Str{s: "%!" + string(verb) + "(MISSING)"})...)
			continue
		}
		arg := args[ai]
		ai++
		if verb == 'w' {
			if wrapped == nil {
				wrapped = arg
			}
			verb = 'v'
		}
		out = append(out, p.formatOperand(fr, verb, arg)...)
	}
	if ai < len(args) {
		panic(unsupported{"fmt: extra arguments"})
	}
	return p.mkStr(out), wrapped
}

func addFmtIntrinsics(m map[string]intrinsicFn) {
	m["fmt.Sprintf"] = func(fr *frame, a []value) value {
		var args []value
		if a[1] != nil {
			args = a[1].([]value)
		}
		s, _ := fr.p.sprintf(fr, a[0].(Str), args)
		return s
	}
	m["fmt.Errorf"] = func(fr *frame, a []value) value {
		p := fr.p
		var args []value
		if a[1] != nil {
			args = a[1].([]value)
		}
		s, wrapped := p.sprintf(fr, a[0].(Str), args)
		if wrapped != nil {
			if wi, ok := wrapped.(iface); ok && wi.t != nil {
				fp := p.eng.prog.ImportedPackage("fmt")
				wt := types.NewPointer(fp.Type("wrapError").Object().Type())
				cell := new(value)
				*cell = structure{s, wi}
				return iface{t: wt, v: cell}
			}
		}
		cell := new(value)
		*cell = structure{s}
		return iface{t: p.eng.errorStringPtr, v: cell}
	}
	m["fmt.Sprint"] = func(fr *frame, a []value) value {
		p := fr.p
		var out []*Term
		var args []value
		if a[0] != nil {
			args = a[0].([]value)
		}
		for _, arg := range args {
			out = append(out, p.formatOperand(fr, 'v', arg)...)
		}
		return p.mkStr(out)
	}
	m["fmt.Fprintln"] = func(fr *frame, a []value) value {
		p := fr.p
		var out []*Term
		var args []value
		if a[1] != nil {
			args = a[1].([]value)
		}
		for i, arg := range args {
			if i > 0 {
				out = append(out, p.tc.BV(8, ' '))
			}
			out = append(out, p.formatOperand(fr, 'v', arg)...)
		}
		out = append(out, p.tc.BV(8, '\n'))
		r := p.invoke(fr, a[0].(iface), "Write", bytesToVals(out))
		return r
	}
	m["fmt.Fprintf"] = func(fr *frame, a []value) value {
		p := fr.p
		var args []value
		if a[2] != nil {
			args = a[2].([]value)
		}
		s, _ := p.sprintf(fr, a[1].(Str), args)
		return p.invoke(fr, a[0].(iface), "Write", bytesToVals(p.bytesOf(s)))
	}
	m["strconv.Itoa"] = func(fr *frame, a []value) value {
		return fr.p.mkStr(fr.p.decimalOf(a[0].(*Term), true))
	}
	m["strconv.FormatInt"] = func(fr *frame, a []value) value {
		if concInt(a[1], "FormatInt base") != 10 {
			panic(unsupported{"FormatInt base != 10"})
		}
		return fr.p.mkStr(fr.p.decimalOf(a[0].(*Term), true))
	}
}
