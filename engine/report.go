package main

import (
	"encoding/hex"
	"encoding/json"
	"fmt"
	"os"
	"os/exec"
	"path/filepath"
	"sort"
	"strconv"
	"strings"
	"time"
)

type Evidence struct {
	PropertyID  string                 `json:"property_id"`
	Tier        string                 `json:"tier"`
	Seed        int                    `json:"seed"`
	Level       string                 `json:"level"`
	Coverage    map[string]interface{} `json:"coverage"`
	Assumptions []string               `json:"assumptions"`
	WallS       float64                `json:"wall_s"`
	Violations  int                    `json:"violations"`
}

func writeEvidence(path string, ev *Evidence) {
	os.MkdirAll(filepath.Dir(path), 0o755)
	b, _ := json.MarshalIndent(ev, "", " ")
	if err := os.WriteFile(path, b, 0o644); err != nil {
		fmt.Fprintln(os.Stderr, "gosym: cannot write evidence:", err)
	}
}

// ---- replay files -----------------------------------------------------------------

type ReplayFile struct {
	Property string            `json:"property"`
	Harness  string            `json:"harness"`
	PkgDir   string            `json:"pkg_dir"`
	Label    string            `json:"label"`
	Msg      string            `json:"msg"`
	Pos      string            `json:"pos"`
	Ints     map[string]string `json:"ints"`
	Bools    map[string]bool   `json:"bools"`
	Bytes    map[string]string `json:"bytes"` // hex
	Choices  map[string]int    `json:"choices"`
	Params   map[string]int    `json:"params"`
	Sched    []schedStep       `json:"sched,omitempty"`
	Gors     []gorInfo         `json:"goroutines,omitempty"`
	Readable map[string]string `json:"readable,omitempty"`
}

func buildReplay(prop string, harness, pkgDir, label, msg, pos string, inputs []inputVar, model map[string]uint64, choices map[string]int, sched []schedStep, params map[string]int) *ReplayFile {
	rf := &ReplayFile{Property: prop, Harness: harness, PkgDir: pkgDir, Label: label, Msg: msg, Pos: pos,
		Ints: map[string]string{}, Bools: map[string]bool{}, Bytes: map[string]string{}, Choices: map[string]int{},
		Params: params, Sched: sched, Readable: map[string]string{}}
	for k, v := range choices {
		rf.Choices[k] = v
	}
	for _, in := range inputs {
		switch in.Kind {
		case "int":
			v := uint64(0)
			if in.T.IsConst() {
				v = in.T.val
			} else {
				v = model[in.T.name] & mask(in.W)
			}
			if in.Sign {
				rf.Ints[in.Name] = strconv.FormatInt(sext64(v, in.W), 10)
			} else {
				rf.Ints[in.Name] = strconv.FormatUint(v, 10)
			}
			rf.Readable[in.Name] = rf.Ints[in.Name]
		case "bool":
			rf.Bools[in.Name] = model[in.T.name] == 1
			rf.Readable[in.Name] = fmt.Sprint(rf.Bools[in.Name])
		case "string", "bytes":
			bs := make([]byte, len(in.Bs))
			for i, b := range in.Bs {
				if b.IsConst() {
					bs[i] = byte(b.val)
				} else {
					bs[i] = byte(model[b.name])
				}
			}
			rf.Bytes[in.Name] = hex.EncodeToString(bs)
			rf.Readable[in.Name] = strconv.Quote(string(bs))
		case "choice":
			rf.Choices[in.Name] = in.Val
		}
	}
	return rf
}

func harnessPkgDir(eng *Engine, harness string) string {
	for _, p := range eng.prog.AllPackages() {
		if !strings.HasPrefix(p.Pkg.Path(), modPath) {
			continue
		}
		if f := p.Func(harness); f != nil {
			return strings.TrimPrefix(strings.TrimPrefix(p.Pkg.Path(), modPath), "/")
		}
	}
	return ""
}

// writeReplayTest generates the native replay entry point for a package directory
// of the scratch copy: a test that dispatches to the package's Verif_* functions.
func writeReplayTest(scratch, pkgDir string) error {
	dir := filepath.Join(scratch, pkgDir)
	ents, err := os.ReadDir(dir)
	if err != nil {
		return err
	}
	var names []string
	pkgName := ""
	for _, e := range ents {
		if !strings.HasPrefix(e.Name(), "zz_verif_") || !strings.HasSuffix(e.Name(), ".go") || strings.HasSuffix(e.Name(), "_test.go") {
			continue
		}
		b, err := os.ReadFile(filepath.Join(dir, e.Name()))
		if err != nil {
			return err
		}
		for _, line := range strings.Split(string(b), "\n") {
			if strings.HasPrefix(line, "package ") && pkgName == "" {
				pkgName = strings.TrimSpace(strings.TrimPrefix(line, "package "))
			}
			if strings.HasPrefix(line, "func Verif_") {
				n := strings.TrimPrefix(line, "func ")
				if i := strings.Index(n, "("); i > 0 {
					names = append(names, n[:i])
				}
			}
		}
	}
	if pkgName == "" {
		return fmt.Errorf("no harness files in %s", dir)
	}
	var sb strings.Builder
	sb.WriteString("//go:build verif\n\npackage " + pkgName + "\n\nimport (\n\t\"testing\"\n\n\t\"" + apiPkg + "\"\n)\n\n")
	sb.WriteString("func TestVerifReplay(t *testing.T) {\n\tzzverif.RunReplay(t, map[string]func(){\n")
	for _, n := range names {
		fmt.Fprintf(&sb, "\t\t%q: %s,\n", n, n)
	}
	sb.WriteString("\t})\n}\n")
	return os.WriteFile(filepath.Join(dir, "zz_verif_replay_test.go"), []byte(sb.String()), 0o644)
}

type replayOutcome struct {
	Fails   []string
	Panic   string
	Obs     []string
	Timeout bool
	Raw     string
	BuildOK bool
}

func runReplayOnce(scratch string, rf *ReplayFile, file string, timeout time.Duration) replayOutcome {
	pkg := "./" + rf.PkgDir
	if rf.PkgDir == "" {
		pkg = "."
	}
	cmd := exec.Command("go", "test", "-tags", "verif", "-count=1", "-vet=off", "-run", "^TestVerifReplay$",
		"-timeout", fmt.Sprintf("%ds", int(timeout.Seconds())), "-v", pkg)
	cmd.Dir = scratch
	cmd.Env = append(os.Environ(), "GOFLAGS=-mod=mod", "GOPROXY=off", "GOSUMDB=off", "GOTOOLCHAIN=local", "VERIF_REPLAY="+file)
	outb, _ := cmd.CombinedOutput()
	out := string(outb)
	ro := replayOutcome{Raw: out, BuildOK: !strings.Contains(out, "[build failed]") && !strings.Contains(out, "[setup failed]")}
	for _, line := range strings.Split(out, "\n") {
		line = strings.TrimSpace(line)
		switch {
		case strings.HasPrefix(line, "VERIF-ASSERT-FAIL "):
			ro.Fails = append(ro.Fails, strings.TrimPrefix(line, "VERIF-ASSERT-FAIL "))
		case strings.HasPrefix(line, "VERIF-PANIC "):
			ro.Panic = strings.TrimPrefix(line, "VERIF-PANIC ")
		case strings.HasPrefix(line, "VERIF-OBS "):
			ro.Obs = append(ro.Obs, strings.TrimPrefix(line, "VERIF-OBS "))
		case strings.HasPrefix(line, "panic: ") && ro.Panic == "":
			ro.Panic = strings.TrimPrefix(line, "panic: ")
		case strings.HasPrefix(line, "fatal error: ") && ro.Panic == "":
			ro.Panic = strings.TrimPrefix(line, "fatal error: ")
		case strings.Contains(line, "test timed out"):
			ro.Timeout = true
		}
	}
	return ro
}

func (ro replayOutcome) confirms(label string) bool {
	for _, f := range ro.Fails {
		if f == label {
			return true
		}
	}
	if strings.HasPrefix(label, "panic:") && ro.Panic != "" {
		return true
	}
	if label == "deadlock" && (ro.Timeout || strings.Contains(ro.Panic, "all goroutines are asleep")) {
		return true
	}
	if label == "goroutine-leak" {
		for _, f := range ro.Fails {
			if f == "goroutine-leak" {
				return true
			}
		}
	}
	return false
}

func replayFile(scratch, file string) (bool, string) {
	b, err := os.ReadFile(file)
	if err != nil {
		return false, err.Error()
	}
	var rf ReplayFile
	if err := json.Unmarshal(b, &rf); err != nil {
		return false, err.Error()
	}
	if len(rf.Gors) > 1 {
		if err := instrumentScratch(scratch); err != nil {
			return false, "instrumentation failed: " + err.Error()
		}
	}
	if err := writeReplayTest(scratch, rf.PkgDir); err != nil {
		return false, err.Error()
	}
	abs, _ := filepath.Abs(file)
	for i := 0; i < 5; i++ {
		ro := runReplayOnce(scratch, &rf, abs, 60*time.Second)
		if ro.confirms(rf.Label) {
			return true, ro.Raw
		}
		if i == 4 {
			return false, ro.Raw
		}
	}
	return false, ""
}

// ---- known findings -----------------------------------------------------------------

type KnownFinding struct {
	ID       string `json:"id"`
	Property string `json:"property"`
	What     string `json:"what"`
}
type KnownFile struct {
	Findings []KnownFinding `json:"findings"`
	Fixed    []string       `json:"fixed"`
}

func loadKnown(path string) KnownFile {
	var kf KnownFile
	b, err := os.ReadFile(path)
	if err == nil {
		json.Unmarshal(b, &kf)
	}
	return kf
}

// ---- report --------------------------------------------------------------------------

func report(eng *Engine, spec *PropSpec, tier string, seed int, start time.Time, out, scratch string, noReplay bool, kfPath string, verbose bool) int {
	res := &eng.res
	known := loadKnown(kfPath)
	knownByID := map[string]KnownFinding{}
	for _, k := range known.Findings {
		if k.Property == spec.ID {
			knownByID[k.ID] = k
		}
	}
	exit := 0
	var inconclusive []string
	var lines []string

	// aggregate
	states, transitions := 0, int64(0)
	obligations, discharged, trivial := 0, 0, 0
	var undis []string
	reach := map[string]int{}
	notes := map[string]int{}
	pathsByStatus := map[string]int{}
	maxPre := 0
	for hn, hs := range res.PerHarness {
		for st, n := range hs.Paths {
			pathsByStatus[st] += n
			if st == "complete" || st == "cut" {
				states += n
			}
		}
		transitions += hs.Steps
		obligations += hs.Obligations
		discharged += hs.Discharged
		trivial += hs.Trivial
		for _, u := range hs.Undischarged {
			undis = append(undis, hn+": "+u)
		}
		for k, v := range hs.Reach {
			reach[hn+":"+k] += v
		}
		for k, v := range hs.Notes {
			notes[hn+": "+k] += v
		}
		if hs.MaxPreempt > maxPre {
			maxPre = hs.MaxPreempt
		}
	}
	for msg, n := range res.Unsupported {
		inconclusive = append(inconclusive, fmt.Sprintf("unsupported construct on %d path(s): %s", n, msg))
	}
	for _, u := range undis {
		inconclusive = append(inconclusive, "undischarged obligation: "+u)
	}
	for k, n := range notes {
		if strings.Contains(k, "UNWIND") || strings.Contains(k, "budget exceeded") {
			inconclusive = append(inconclusive, fmt.Sprintf("bound too small (%d path(s)): %s", n, k))
		}
	}
	if res.CrossDis > 0 {
		inconclusive = append(inconclusive, fmt.Sprintf("cross-solver disagreement on %d queries", res.CrossDis))
	}

	// group violations
	type vkey struct{ h, label, known string }
	groups := map[vkey][]Violation{}
	var keys []vkey
	for _, v := range res.Violations {
		k := vkey{v.Harness, v.Label, v.Known}
		if _, ok := groups[k]; !ok {
			keys = append(keys, k)
		}
		groups[k] = append(groups[k], v)
	}
	sort.Slice(keys, func(i, j int) bool {
		if keys[i].h != keys[j].h {
			return keys[i].h < keys[j].h
		}
		if keys[i].label != keys[j].label {
			return keys[i].label < keys[j].label
		}
		return keys[i].known < keys[j].known
	})
	replayDir := filepath.Join(filepath.Dir(out), "replays")
	confirmed := 0
	var vioSummaries []map[string]interface{}
	prepared := map[string]bool{}
	knownPrinted := map[string]bool{}
	instrumented := false
	for _, k := range keys {
		vs := groups[k]
		pkgDir := harnessPkgDir(eng, k.h)
		kf, isKnown := knownByID[k.known]
		if k.known != "" && !isKnown {
			// harness names a finding that is not (or no longer) listed: plain violation
			isKnown = false
		}
		// candidates: shortest schedules first (easier to pin natively)
		sort.SliceStable(vs, func(i, j int) bool { return len(vs[i].Sched) < len(vs[j].Sched) })
		// Sequential counterexamples are deterministic: a few candidates suffice.
		// Concurrent ones are replayed under soft schedule pinning, which does not
		// always reproduce the interleaving, so more candidates are tried, round
		// robin, within a time budget.
		concurrent := len(vs[0].Gors) > 1
		maxCands, budget := 3, 120*time.Second
		if concurrent {
			maxCands = 24
		}
		if len(vs) < maxCands {
			maxCands = len(vs)
		}
		cands := make([]Violation, 0, maxCands)
		for i := 0; i < maxCands; i++ {
			if i < maxCands/2 || !concurrent {
				cands = append(cands, vs[i])
			} else {
				cands = append(cands, vs[i*len(vs)/maxCands]) // and a spread over the rest
			}
		}
		ok := false
		var okFile string
		var lastRaw string
		os.MkdirAll(replayDir, 0o755)
		tag := "new"
		if isKnown {
			tag = "known"
		}
		files := make([]string, len(cands))
		rfs := make([]*ReplayFile, len(cands))
		for i, v := range cands {
			rf := buildReplay(spec.ID, v.Harness, pkgDir, v.Label, v.Msg, v.Pos, v.Inputs, v.Model, v.Choices, v.Sched, eng.cfgFor(v.Harness).Params)
			rf.Gors = v.Gors
			rfs[i] = rf
			files[i] = filepath.Join(replayDir, fmt.Sprintf("%s_%s_%s_%s_%d.json", spec.ID, k.h, sanitize(k.label), tag, i))
			b, _ := json.MarshalIndent(rf, "", " ")
			os.WriteFile(files[i], b, 0o644)
		}
		if !noReplay {
			if concurrent && !instrumented {
				// schedule-pinned replay: instrument the scratch copy once
				if err := instrumentScratch(scratch); err != nil {
					fmt.Fprintln(os.Stderr, "gosym: instrumentation failed, falling back to unpinned replay:", err)
				}
				instrumented = true
			}
			if !prepared[pkgDir] {
				if err := writeReplayTest(scratch, pkgDir); err != nil {
					lastRaw = err.Error()
				} else {
					prepared[pkgDir] = true
				}
			}
			t0 := time.Now()
			rounds := 2
			if concurrent {
				rounds = 4
			}
		replayLoop:
			for r := 0; r < rounds && prepared[pkgDir]; r++ {
				for i := range cands {
					if time.Since(t0) > budget {
						break replayLoop
					}
					ro := runReplayOnce(scratch, rfs[i], files[i], 60*time.Second)
					lastRaw = ro.Raw
					if ro.confirms(cands[i].Label) {
						ok = true
						okFile = files[i]
						break replayLoop
					}
					if !ro.BuildOK {
						break replayLoop
					}
				}
			}
		}
		for i, f := range files {
			if f == okFile {
				continue
			}
			if i < 3 {
				os.Rename(f, filepath.Join(replayDir, "unconfirmed_"+filepath.Base(f)))
			} else {
				os.Remove(f)
			}
		}
		sum := map[string]interface{}{"harness": k.h, "label": k.label, "paths": len(vs), "pos": vs[0].Pos, "msg": vs[0].Msg, "confirmed_natively": ok}
		if k.known != "" {
			sum["known_finding"] = k.known
		}
		if len(vs[0].Stack) > 0 {
			sum["stack"] = vs[0].Stack
		}
		vioSummaries = append(vioSummaries, sum)
		switch {
		case ok && isKnown:
			if !knownPrinted[kf.ID] {
				lines = append(lines, fmt.Sprintf("KNOWN-FINDING: property=%s %s [%s] replay=%s", spec.ID, kf.What, kf.ID, okFile))
				knownPrinted[kf.ID] = true
			}
		case ok:
			confirmed++
			lines = append(lines, fmt.Sprintf("VIOLATION property=%s replay=%s", spec.ID, okFile))
			lines = append(lines, fmt.Sprintf("  harness=%s label=%s at %s: %s (%d path(s))", k.h, k.label, vs[0].Pos, vs[0].Msg, len(vs)))
			exit = 1
		default:
			if isKnown {
				notes[fmt.Sprintf("%s: known finding %s has a solver counterexample that did not reproduce natively", k.h, k.known)]++
			} else {
				why := "native replay disabled"
				if !noReplay {
					why = "native replay did not reproduce it"
				}
				inconclusive = append(inconclusive, fmt.Sprintf("counterexample for %s/%s at %s (%s): %s", k.h, k.label, vs[0].Pos, vs[0].Msg, why))
				if verbose && len(vs[0].Stack) > 0 {
					fmt.Fprintln(os.Stderr, "---- target stack ----\n"+strings.Join(vs[0].Stack, "\n"))
				}
				if verbose && lastRaw != "" {
					fmt.Fprintln(os.Stderr, "---- replay output ----\n"+lastRaw)
				}
			}
		}
	}

	// translator validation: replay sampled non-violating paths and compare logs
	validated, mismatched := 0, 0
	var mismatchNotes []string
	if !noReplay {
		validated, mismatched, mismatchNotes = validateSamples(eng, spec, scratch, tier)
		for _, m := range mismatchNotes {
			inconclusive = append(inconclusive, "translator validation mismatch: "+m)
		}
	}
	_ = mismatched

	// samples
	var samples []interface{}
	for i, s := range res.ObsSamples {
		if i >= 5 {
			break
		}
		rf := buildReplay(spec.ID, s.Harness, "", "", "", "", s.Inputs, s.Model, s.Choices, nil, nil)
		samples = append(samples, map[string]interface{}{"harness": s.Harness, "inputs": rf.Readable, "choices": rf.Choices, "observed": s.Log, "schedule_steps": len(s.Sched)})
	}
	if len(samples) == 0 {
		samples = append(samples, map[string]interface{}{"note": "no completed path produced a sample"})
	}

	if verbose {
		type kv struct {
			k string
			v int
		}
		var fs []kv
		for k, v := range res.ForkSites {
			fs = append(fs, kv{k, v})
		}
		sort.Slice(fs, func(i, j int) bool { return fs[i].v > fs[j].v })
		for i, f := range fs {
			if i >= 25 {
				break
			}
			fmt.Fprintf(os.Stderr, "fork-site %7d  %s\n", f.v, f.k)
		}
	}
	sort.Strings(inconclusive)
	for _, inc := range inconclusive {
		lines = append(lines, fmt.Sprintf("INCONCLUSIVE property=%s %s", spec.ID, inc))
	}

	solverStats := map[string]interface{}{}
	for k, v := range res.Solver {
		solverStats[k] = map[string]interface{}{"queries": v.Queries, "sat": v.Sat, "unsat": v.Unsat, "unknown": v.Unknown, "seconds": round2(v.Seconds)}
	}
	var fns []string
	for f := range res.FuncsRun {
		fns = append(fns, f)
	}
	sort.Strings(fns)
	bound := spec.Bounds[tier]
	ev := &Evidence{PropertyID: spec.ID, Tier: tier, Seed: seed, Level: "model_checking",
		Assumptions: append(append([]string{}, spec.Assume...), spec.Stubs...), WallS: round2(time.Since(start).Seconds()), Violations: confirmed}
	ev.Coverage = map[string]interface{}{
		"states":                        states,
		"transitions":                   transitions,
		"traces_validated_against_impl": validated,
		"samples":                       samples,
		"obligations":                   obligations,
		"discharged":                    discharged,
		"discharged_by_constant_folding": trivial,
		"undischarged":                  len(undis),
		"paths_by_status":               pathsByStatus,
		"functions_encoded":             fns,
		"bounds":                        bound,
		"engine_config":                 map[string]interface{}{"preemption_bound": eng.cfg.Preempt, "delay_bound": eng.cfg.DelayBound, "unwind": eng.cfg.Unwind, "alloc_cap": eng.cfg.AllocCap, "map_perm_max": eng.cfg.MapPermMax, "map_order_budget": eng.cfg.MapOrderBudget, "params": eng.cfg.Params, "query_timeout_ms": eng.cfg.TimeoutMs},
		"max_preemptions_used":          maxPre,
		"reach_witnesses":               reach,
		"solver":                        solverStats,
		"cross_solver_checked":          res.CrossN,
		"cross_solver_disagreements":    res.CrossDis,
		"violations_found":              vioSummaries,
		"inconclusive":                  inconclusive,
		"notes":                         sortedInts(notes),
		"harnesses":                     spec.Harnesses,
		"exhaustive":                    len(inconclusive) == 0,
		"explanation":                   "bounded symbolic execution of the Go SSA of /repo's working tree; every symbolic branch decided by SMT queries; states = feasible paths explored to completion, transitions = SSA instructions executed",
	}
	writeEvidence(out, ev)
	for _, l := range lines {
		fmt.Println(l)
	}
	fmt.Printf("gosym: property=%s tier=%s paths=%v obligations=%d discharged=%d violations=%d inconclusive=%d validated=%d wall=%.1fs\n",
		spec.ID, tier, pathsByStatus, obligations, discharged, confirmed, len(inconclusive), validated, time.Since(start).Seconds())
	return exit
}

func round2(f float64) float64 { return float64(int(f*100+0.5)) / 100 }

func sanitize(s string) string {
	var sb strings.Builder
	for _, c := range s {
		if c >= 'a' && c <= 'z' || c >= 'A' && c <= 'Z' || c >= '0' && c <= '9' || c == '-' || c == '_' {
			sb.WriteRune(c)
		} else {
			sb.WriteByte('_')
		}
	}
	r := sb.String()
	if len(r) > 48 {
		r = r[:48]
	}
	return r
}

// validateSamples replays a sample of completed, non-violating paths natively and
// compares the observation logs with the engine's prediction.
func validateSamples(eng *Engine, spec *PropSpec, scratch, tier string) (int, int, []string) {
	limit := 8
	if tier == "thorough" {
		limit = 32
	}
	perHarness := map[string]int{}
	validated, mismatched := 0, 0
	var notes []string
	prepared := map[string]bool{}
	dir, err := os.MkdirTemp(scratch, "zzsamples-")
	if err != nil {
		return 0, 0, nil
	}
	// spread the picks over the sample list
	samples := eng.res.ObsSamples
	step := 1
	if len(samples) > 4*limit {
		step = len(samples) / (4 * limit)
	}
	for i := 0; i < len(samples); i += step {
		s := samples[i]
		if len(s.Log) == 0 || s.Gors > 1 && !eng.cfg.Params_validateConcurrent() {
			continue
		}
		if perHarness[s.Harness] >= limit {
			continue
		}
		perHarness[s.Harness]++
		pkgDir := harnessPkgDir(eng, s.Harness)
		if !prepared[pkgDir] {
			if err := writeReplayTest(scratch, pkgDir); err != nil {
				continue
			}
			prepared[pkgDir] = true
		}
		rf := buildReplay(spec.ID, s.Harness, pkgDir, "", "", "", s.Inputs, s.Model, s.Choices, nil, eng.cfgFor(s.Harness).Params)
		file := filepath.Join(dir, fmt.Sprintf("s%d.json", i))
		b, _ := json.Marshal(rf)
		os.WriteFile(file, b, 0o644)
		ro := runReplayOnce(scratch, rf, file, 60*time.Second)
		if !ro.BuildOK {
			notes = append(notes, "replay build failed: "+firstLine(ro.Raw))
			break
		}
		if equalLogs(ro.Obs, s.Log) && len(ro.Fails) == 0 && ro.Panic == "" {
			validated++
		} else {
			mismatched++
			if len(notes) < 5 {
				notes = append(notes, fmt.Sprintf("%s inputs=%v engine=%v native=%v fails=%v panic=%q", s.Harness, rf.Readable, s.Log, ro.Obs, ro.Fails, ro.Panic))
			}
		}
	}
	return validated, mismatched, notes
}

func (c Config) Params_validateConcurrent() bool { return c.Params["validate_concurrent"] != 0 }

func equalLogs(a, b []string) bool {
	// map iteration order and scheduling may permute independent observations:
	// compare as multisets
	if len(a) != len(b) {
		return false
	}
	x := append([]string{}, a...)
	y := append([]string{}, b...)
	sort.Strings(x)
	sort.Strings(y)
	for i := range x {
		if x[i] != y[i] {
			return false
		}
	}
	return true
}
