package main

import (
	"regexp"
	"encoding/json"
	"flag"
	"fmt"
	"os"
	"os/exec"
	"path/filepath"
	"sort"
	"strings"
	"time"

	"golang.org/x/tools/go/ssa"
)

// PropSpec is one entry of /verif/harness/props.json.
type PropSpec struct {
	ID        string                    `json:"id"`
	Packages  []string                  `json:"packages"`  // package patterns to load (relative to module root)
	Harnesses []string                  `json:"harnesses"` // "pkgpath-suffix.FuncName"
	Tiers     map[string]map[string]int `json:"tiers"`     // tier -> parameter overrides (engine config keys and harness params)
	Bounds    map[string]string         `json:"bounds"`    // tier -> human-readable bound statement
	PerHarness map[string]map[string]map[string]int `json:"per_harness"` // harness -> tier ("all" too) -> overrides
	Assume    []string                  `json:"assumptions"`
	Stubs     []string                  `json:"stubs"`
}

func applyParams(cfg *Config, params map[string]int) {
	for k, v := range params {
		switch k {
		case "preempt":
			cfg.Preempt = v
		case "unwind":
			cfg.Unwind = v
		case "maxsteps":
			cfg.MaxSteps = v
		case "alloccap":
			cfg.AllocCap = v
		case "mappermmax":
			cfg.MapPermMax = v
		case "delaybound":
			cfg.DelayBound = v
		case "preemptatlocks":
			cfg.PreemptAtLocks = v != 0
		case "maporderbudget":
			cfg.MapOrderBudget = v
		case "mapvariants":
			cfg.MapVariants = v
		case "timeoutms":
			cfg.TimeoutMs = v
		case "maxpaths":
			cfg.MaxPaths = v
		case "maxconcretize":
			cfg.MaxConcretize = v
		case "race":
			cfg.Race = v != 0
		default:
			cfg.Params[k] = v
		}
	}
}

func run(name string, args ...string) error {
	cmd := exec.Command(name, args...)
	out, err := cmd.CombinedOutput()
	if err != nil {
		return fmt.Errorf("%s %v: %v\n%s", name, args, err, out)
	}
	return nil
}

func makeScratch(repo, overlay string) (string, error) {
	base := os.Getenv("GOSYM_TMP")
	if base == "" {
		base = os.TempDir()
	}
	dir, err := os.MkdirTemp(base, "gosym-")
	if err != nil {
		return "", err
	}
	if err := run("rsync", "-a", "--exclude", ".git", repo+"/", dir+"/"); err != nil {
		return dir, err
	}
	if err := run("rsync", "-a", overlay+"/", dir+"/"); err != nil {
		return dir, err
	}
	if err := runGenerators(dir); err != nil {
		return dir, err
	}
	return dir, nil
}

func main() {
	var (
		prop     = flag.String("prop", "", "property id (e.g. C14)")
		tier     = flag.String("tier", "quick", "quick|thorough")
		repo     = flag.String("repo", "/repo", "repository working tree")
		hdir     = flag.String("harness", "/verif/harness", "harness directory (props.json + overlay/)")
		out      = flag.String("out", "", "evidence file (default /verif/evidence/<prop>.json)")
		only     = flag.String("only", "", "run only the harness with this function name")
		keep     = flag.Bool("keep", false, "keep the scratch copy")
		workers  = flag.Int("workers", 16, "worker count")
		verbose  = flag.Bool("v", false, "verbose")
		noReplay = flag.Bool("noreplay", false, "do not replay counterexamples natively (they are then reported INCONCLUSIVE)")
		kfFile   = flag.String("known", "/verif/known_findings.json", "known findings file")
		cross    = flag.String("cross", "", "cross-check every decided query on this second solver")
		replayF  = flag.String("replay", "", "replay a stored counterexample file natively and exit")
	)
	flag.Parse()
	start := time.Now()
	if *tier == "" {
		*tier = "quick"
	}
	if t := os.Getenv("VERIF_TIER"); t != "" && flag.Lookup("tier").Value.String() == "quick" && !flagSet("tier") {
		*tier = t
	}
	seed := 0
	fmt.Sscan(os.Getenv("VERIF_SEED"), &seed)

	var specs []PropSpec
	b, err := os.ReadFile(filepath.Join(*hdir, "props.json"))
	if err != nil {
		fatal("read props.json: %v", err)
	}
	if err := json.Unmarshal(b, &specs); err != nil {
		fatal("parse props.json: %v", err)
	}
	var spec *PropSpec
	for i := range specs {
		if specs[i].ID == *prop {
			spec = &specs[i]
		}
	}
	if spec == nil {
		fatal("unknown property %q", *prop)
	}
	if *out == "" {
		*out = "/verif/evidence/" + *prop + ".json"
	}

	cfg := defaultConfig()
	cfg.Workers = *workers
	cfg.Cross = *cross
	if all, ok := spec.Tiers["all"]; ok {
		applyParams(&cfg, all)
	}
	applyParams(&cfg, spec.Tiers[*tier])
	if *tier == "thorough" && cfg.Cross == "" {
		cfg.Cross = "z3-new"
	}

	scratch, err := makeScratch(*repo, filepath.Join(*hdir, "overlay"))
	cleanup := func() {
		if !*keep && scratch != "" {
			os.RemoveAll(scratch)
		}
	}
	if err != nil {
		cleanup()
		fatal("scratch copy: %v", err)
	}
	if *keep {
		fmt.Fprintln(os.Stderr, "gosym: scratch copy at", scratch)
	}

	if *replayF != "" {
		ok, outp := replayFile(scratch, *replayF)
		fmt.Print(outp)
		cleanup()
		if ok {
			fmt.Printf("VIOLATION property=%s replay=%s\n", *prop, *replayF)
			os.Exit(1)
		}
		fmt.Println("replay: violation did not reproduce")
		os.Exit(0)
	}

	ev := &Evidence{PropertyID: *prop, Tier: *tier, Seed: seed, Level: "model_checking"}
	pats := spec.Packages
	if len(pats) == 0 {
		pats = []string{"./..."}
	}
	eng, err := newEngine(cfg, scratch, pats)
	// A change to the tree may break harness files of OTHER properties that live in
	// the same package (they call unexported functions directly). Such files are
	// not part of this property's check: drop them from the scratch copy and load
	// again. A file that defines one of this property's harnesses is never dropped.
	var dropped []string
	for try := 0; err != nil && try < 4; try++ {
		bad := droppableHarnessFiles(err.Error(), spec.Harnesses)
		if len(bad) == 0 {
			break
		}
		for _, bf := range bad {
			os.Remove(bf)
			dropped = append(dropped, filepath.Base(bf))
		}
		eng, err = newEngine(cfg, scratch, pats)
	}
	if err == nil && len(dropped) > 0 {
		fmt.Printf("gosym: harness files of other properties that do not compile against this tree were left out: %s\n", strings.Join(dropped, ", "))
	}
	if err != nil {
		// the tree (with harnesses) does not load: inconclusive, never an alarm
		fmt.Printf("INCONCLUSIVE property=%s harness does not load against this tree: %v\n", *prop, firstLine(err.Error()))
		ev.Coverage = map[string]interface{}{"states": 0, "transitions": 0, "traces_validated_against_impl": 0,
			"samples": []interface{}{}, "inconclusive": []string{"load error: " + err.Error()},
			"evaluations": 0, "distinct_nontrivial": 0}
		ev.WallS = time.Since(start).Seconds()
		writeEvidence(*out, ev)
		cleanup()
		os.Exit(0)
	}
	eng.hcfg = map[string]*Config{}
	for hn, tiers := range spec.PerHarness {
		c := eng.cfg
		c.Params = map[string]int{}
		for k, v := range eng.cfg.Params {
			c.Params[k] = v
		}
		applyParams(&c, tiers["all"])
		applyParams(&c, tiers[*tier])
		cc := c
		eng.hcfg[hn] = &cc
	}
	var hs []*ssa.Function
	for _, h := range spec.Harnesses {
		i := strings.LastIndex(h, ".")
		pk, fn := h[:i], h[i+1:]
		if *only != "" && fn != *only {
			continue
		}
		pkgPath := modPath
		if pk != "" && pk != "." {
			pkgPath = modPath + "/" + pk
		}
		f := eng.findFunc(pkgPath, fn)
		if f == nil {
			cleanup()
			fatal("harness %s not found in %s", fn, pkgPath)
		}
		hs = append(hs, f)
	}
	eng.explore(hs)
	code := report(eng, spec, *tier, seed, start, *out, scratch, *noReplay, *kfFile, *verbose)
	cleanup()
	os.Exit(code)
}

func flagSet(name string) bool {
	found := false
	flag.Visit(func(f *flag.Flag) {
		if f.Name == name {
			found = true
		}
	})
	return found
}

func firstLine(s string) string {
	if i := strings.Index(s, "\n"); i >= 0 {
		// keep up to three lines
		parts := strings.SplitN(s, "\n", 4)
		if len(parts) > 3 {
			parts = parts[:3]
		}
		return strings.Join(parts, " | ")
	}
	return s
}

func fatal(f string, a ...interface{}) {
	fmt.Fprintf(os.Stderr, "gosym: "+f+"\n", a...)
	os.Exit(2)
}

func sortedInts(m map[string]int) []string {
	ks := make([]string, 0, len(m))
	for k := range m {
		ks = append(ks, k)
	}
	sort.Strings(ks)
	r := make([]string, len(ks))
	for i, k := range ks {
		r[i] = fmt.Sprintf("%s ×%d", k, m[k])
	}
	return r
}

var harnessFileInErr = regexp.MustCompile(`(/[^\s:]+/zz_verif_[A-Za-z0-9_]+\.go):\d+`)

// droppableHarnessFiles returns the harness files named in a package-load error
// that define none of the given harness functions ("pkg.Func").
func droppableHarnessFiles(msg string, harnesses []string) []string {
	seen := map[string]bool{}
	var out []string
	for _, m := range harnessFileInErr.FindAllStringSubmatch(msg, -1) {
		fn := m[1]
		if seen[fn] {
			continue
		}
		seen[fn] = true
		src, err := os.ReadFile(fn)
		if err != nil {
			continue
		}
		needed := false
		for _, h := range harnesses {
			name := h[strings.LastIndex(h, ".")+1:]
			if strings.Contains(string(src), "func "+name+"(") {
				needed = true
			}
		}
		if !needed {
			out = append(out, fn)
		}
	}
	return out
}
