package main

// Solver back ends: long-lived SMT-LIB2 processes (z3 -in, cvc5 --incremental).
// One Solver per worker. Per path: Reset(), then Assert()s interleaved with
// Check()s. Any "(error" line or "unknown" makes a query inconclusive on that
// back end; it is then retried on the fallback back ends (which replay the
// path's assertion log).

import (
	"bufio"
	"fmt"
	"io"
	"os"
	"os/exec"
	"strconv"
	"strings"
	"sync/atomic"
	"time"
)

type backendSpec struct {
	name string
	argv []string
	// option lines sent after every reset
	prelude func(timeoutMs int) string
}

// NOTE: z3 4.8.12 returns wrong answers ("unsat" for satisfiable queries) when
// (set-option :timeout N) is issued after assertions were made in the session.
// Time-outs are therefore fixed per process on the command line (-t:ms) and no
// option is ever changed mid-session; the short first attempt is a separate z3
// process ("z3q").
var backendSpecs = map[string]backendSpec{
	"z3":       {"z3", []string{"z3", "-in"}, func(ms int) string { return "" }},
	"z3q":      {"z3q", []string{"z3", "-in"}, func(ms int) string { return "" }},
	"z3-new":   {"z3-new", []string{"z3-new", "-in"}, func(ms int) string { return "" }},
	"cvc5":     {"cvc5", []string{"cvc5", "--incremental", "--produce-models", "--lang=smt2"}, func(ms int) string { return "(set-logic QF_BV)\n" }},
	"cvc5-int": {"cvc5-int", []string{"cvc5", "--incremental", "--produce-models", "--lang=smt2", "--solve-bv-as-int=sum"}, func(ms int) string { return "(set-logic ALL)\n" }},
}

type backend struct {
	spec      backendSpec
	cmd       *exec.Cmd
	in        io.WriteCloser
	out       *bufio.Reader
	em        emitter
	buf       strings.Builder
	seq       int
	timeoutMs int
	nAsserted int // how many of the Solver's assertion log entries were sent
	dead      bool
	curTimeout int
	transcript *os.File

	queries, nsat, nunsat, nunknown int
	seconds                         float64
}

func startBackend(kind string, timeoutMs int) (*backend, error) {
	spec, ok := backendSpecs[kind]
	if !ok {
		return nil, fmt.Errorf("unknown backend %s", kind)
	}
	argv := append([]string{}, spec.argv...)
	if strings.HasPrefix(kind, "cvc5") {
		argv = append(argv, fmt.Sprintf("--tlimit-per=%d", timeoutMs))
	} else {
		argv = append(argv, fmt.Sprintf("-t:%d", timeoutMs))
	}
	cmd := exec.Command(argv[0], argv[1:]...)
	in, err := cmd.StdinPipe()
	if err != nil {
		return nil, err
	}
	outp, err := cmd.StdoutPipe()
	if err != nil {
		return nil, err
	}
	cmd.Stderr = cmd.Stdout
	if err := cmd.Start(); err != nil {
		return nil, err
	}
	b := &backend{spec: spec, cmd: cmd, in: in, out: bufio.NewReaderSize(outp, 1<<16), timeoutMs: timeoutMs}
	b.em = emitter{defined: map[int]bool{}, out: &b.buf}
	if d := os.Getenv("GOSYM_TRANSCRIPT"); d != "" {
		b.transcript, _ = os.Create(fmt.Sprintf("%s/%s-%d.smt2", d, kind, cmd.Process.Pid))
	}
	b.reset()
	return b, nil
}

func (b *backend) close() {
	if b.cmd != nil && b.cmd.Process != nil {
		b.in.Close()
		b.cmd.Process.Kill()
		b.cmd.Wait()
	}
}

func (b *backend) reset() {
	b.buf.Reset()
	b.buf.WriteString("(reset)\n")
	b.buf.WriteString(b.spec.prelude(b.timeoutMs))
	b.em.defined = map[int]bool{}
	b.nAsserted = 0
	b.curTimeout = b.timeoutMs
}

func (b *backend) assert(t *Term) {
	r := b.em.ref(t)
	fmt.Fprintf(&b.buf, "(assert %s)\n", r)
}

// roundtrip flushes the buffer followed by an echo marker, and returns the
// output lines produced before the marker.
func (b *backend) roundtrip() ([]string, error) {
	b.seq++
	marker := fmt.Sprintf("<<done-%d>>", b.seq)
	fmt.Fprintf(&b.buf, "(echo \"%s\")\n", marker)
	if b.transcript != nil {
		b.transcript.WriteString(b.buf.String())
	}
	if _, err := io.WriteString(b.in, b.buf.String()); err != nil {
		b.dead = true
		return nil, err
	}
	b.buf.Reset()
	var lines []string
	for {
		line, err := b.out.ReadString('\n')
		if err != nil {
			b.dead = true
			return lines, err
		}
		line = strings.TrimSpace(line)
		if strings.Contains(line, marker) {
			return lines, nil
		}
		if line != "" {
			lines = append(lines, line)
		}
	}
}

type checkResult int

const (
	resUnknown checkResult = iota
	resSat
	resUnsat
)

func (r checkResult) String() string {
	switch r {
	case resSat:
		return "sat"
	case resUnsat:
		return "unsat"
	}
	return "unknown"
}

// check decides satisfiability of (asserted so far) AND extra. If wantModel is
// non-nil and the result is sat, values for those variables are returned.
func (b *backend) check(extra *Term, wantModel []*Term, timeoutMs int) (checkResult, map[string]uint64, string) {
	start := time.Now()
	var ref string
	if extra != nil {
		ref = b.em.ref(extra)
	}
	var vrefs []string
	for _, v := range wantModel {
		vrefs = append(vrefs, b.em.ref(v))
	}
	b.buf.WriteString("(push 1)\n")
	if extra != nil {
		fmt.Fprintf(&b.buf, "(assert %s)\n", ref)
	}
	b.buf.WriteString("(check-sat)\n")
	lines, err := b.roundtrip()
	b.queries++
	res := resUnknown
	note := ""
	if err != nil {
		note = "solver i/o: " + err.Error()
	}
	for _, l := range lines {
		if strings.HasPrefix(l, "(error") {
			res = resUnknown
			note = l
			break
		}
		switch l {
		case "sat":
			res = resSat
		case "unsat":
			res = resUnsat
		case "unknown", "timeout":
			res = resUnknown
			note = l
		}
	}
	var model map[string]uint64
	if res == resSat && len(wantModel) > 0 && !b.dead {
		model = map[string]uint64{}
		// query in chunks to keep lines manageable
		for i := 0; i < len(vrefs); i += 64 {
			j := i + 64
			if j > len(vrefs) {
				j = len(vrefs)
			}
			fmt.Fprintf(&b.buf, "(get-value (%s))\n", strings.Join(vrefs[i:j], " "))
			ls, err := b.roundtrip()
			if err != nil {
				note = "solver i/o: " + err.Error()
				res = resUnknown
				break
			}
			text := strings.Join(ls, " ")
			if strings.Contains(text, "(error") {
				note = text
				res = resUnknown
				break
			}
			parseGetValue(text, wantModel[i:j], model)
		}
	}
	if !b.dead {
		b.buf.WriteString("(pop 1)\n")
	}
	switch res {
	case resSat:
		b.nsat++
	case resUnsat:
		b.nunsat++
	default:
		b.nunknown++
		// After a timed-out / cancelled check z3 4.8.12's incremental state can be
		// corrupted: later queries in the same session were observed to return
		// "unsat" for satisfiable problems. A back end that answered unknown is
		// therefore discarded; the next query starts a fresh process and replays
		// the path's assertion log.
		b.dead = true
	}
	b.seconds += time.Since(start).Seconds()
	return res, model, note
}

// parseGetValue parses "((name value) (name value) ...)" in order.
func parseGetValue(text string, vars []*Term, model map[string]uint64) {
	// values appear as #x.., #b.., true, false, or (_ bvN W)
	idx := 0
	toks := tokenize(text)
	// walk tokens, picking value tokens that follow a name at depth 2
	depth := 0
	i := 0
	for i < len(toks) && idx < len(vars) {
		t := toks[i]
		switch t {
		case "(":
			depth++
			if depth == 2 {
				// ( name value )
				// name may be |...| (single token) ; value may be token or ( _ bvN W )
				i++ // name
				i++
				if i < len(toks) {
					v := toks[i]
					var val uint64
					if v == "(" {
						// (_ bvN W)
						if i+2 < len(toks) && strings.HasPrefix(toks[i+2], "bv") {
							n, _ := strconv.ParseUint(toks[i+2][2:], 10, 64)
							val = n
						}
						for i < len(toks) && toks[i] != ")" {
							i++
						}
					} else {
						val = parseSmtConst(v)
					}
					model[vars[idx].name] = val
					idx++
				}
				// skip to closing paren of this pair
				for i < len(toks) && toks[i] != ")" {
					i++
				}
				depth--
			}
		case ")":
			depth--
		}
		i++
	}
}

func parseSmtConst(v string) uint64 {
	switch {
	case v == "true":
		return 1
	case v == "false":
		return 0
	case strings.HasPrefix(v, "#x"):
		n, _ := strconv.ParseUint(v[2:], 16, 64)
		return n
	case strings.HasPrefix(v, "#b"):
		n, _ := strconv.ParseUint(v[2:], 2, 64)
		return n
	}
	n, _ := strconv.ParseUint(v, 10, 64)
	return n
}

func tokenize(s string) []string {
	var toks []string
	i := 0
	for i < len(s) {
		c := s[i]
		switch {
		case c == '(' || c == ')':
			toks = append(toks, string(c))
			i++
		case c == ' ' || c == '\t' || c == '\n' || c == '\r':
			i++
		case c == '|':
			j := i + 1
			for j < len(s) && s[j] != '|' {
				j++
			}
			toks = append(toks, s[i:min(j+1, len(s))])
			i = j + 1
		default:
			j := i
			for j < len(s) && !strings.ContainsRune("() \t\n\r", rune(s[j])) {
				j++
			}
			toks = append(toks, s[i:j])
			i = j
		}
	}
	return toks
}

// ---- Solver: primary + fallbacks over a path's assertion log -----------------

type solverStats struct {
	Queries, Sat, Unsat, Unknown int
	Seconds                      float64
}

type Solver struct {
	order     []string // back end names, primary first
	backends  map[string]*backend
	log       []*Term // path assertions
	timeoutMs int
	cross     string // optional second solver to cross-check every decided query
	crossDis  int
	crossN    int
	quickMs   int
	retired   map[string]*solverStats
	preferInt bool
	crossKind string
	crossMs   int
}

var globalSolverStats = map[string]*solverStats{}
var totalQueries int64

func NewSolver(order []string, timeoutMs int, cross string) *Solver {
	return &Solver{order: order, backends: map[string]*backend{}, timeoutMs: timeoutMs, cross: cross, quickMs: 100}
}

func (s *Solver) get(kind string) *backend {
	b := s.backends[kind]
	if b != nil && !b.dead {
		return b
	}
	if b != nil {
		s.retire(kind, b)
		b.close()
	}
	ms := s.timeoutMs
	if kind == "z3q" {
		ms = s.quickMs
	}
	if kind == s.crossKind && s.crossMs > 0 {
		ms = s.crossMs
	}
	nb, err := startBackend(kind, ms)
	if err != nil {
		return nil
	}
	s.backends[kind] = nb
	return nb
}

func (s *Solver) retire(kind string, b *backend) {
	if s.retired == nil {
		s.retired = map[string]*solverStats{}
	}
	st := s.retired[kind]
	if st == nil {
		st = &solverStats{}
		s.retired[kind] = st
	}
	st.Queries += b.queries
	st.Sat += b.nsat
	st.Unsat += b.nunsat
	st.Unknown += b.nunknown
	st.Seconds += b.seconds
}

func (s *Solver) Close() {
	for _, b := range s.backends {
		b.close()
	}
}

func (s *Solver) Reset() {
	s.log = s.log[:0]
	s.preferInt = false
	for _, b := range s.backends {
		if !b.dead {
			b.reset()
		}
	}
}

func (s *Solver) Assert(t *Term) {
	if isTrue(t) {
		return
	}
	s.log = append(s.log, t)
}

func (s *Solver) sync(b *backend) {
	for b.nAsserted < len(s.log) {
		b.assert(s.log[b.nAsserted])
		b.nAsserted++
	}
}

// Check decides sat(log ∧ extra). The result is resUnknown if no back end
// decides it within the time-out.
func (s *Solver) Check(extra *Term, wantModel []*Term) (checkResult, map[string]uint64, string) {
	atomic.AddInt64(&totalQueries, 1)
	if extra != nil && extra.op == OpConst {
		if extra.val == 0 {
			return resUnsat, nil, ""
		}
		extra = nil
	}
	var notes []string
	type stage struct {
		kind string
		ms   int
	}
	var stages []stage
	if len(s.order) > 1 && s.quickMs > 0 && s.order[0] == "z3" {
		// a short first attempt on a separate z3 process, the full time-out later
		stages = append(stages, stage{"z3q", s.quickMs})
		for _, kind := range s.order[1:] {
			stages = append(stages, stage{kind, s.timeoutMs})
		}
		stages = append(stages, stage{"z3", s.timeoutMs})
	} else {
		for _, kind := range s.order {
			stages = append(stages, stage{kind, s.timeoutMs})
		}
	}
	if s.preferInt && len(stages) > 1 && stages[0].kind == "z3q" && stages[1].kind == "cvc5-int" {
		// the quick z3 attempt already timed out on this path: arithmetic-heavy
		// path condition, ask the integer back end first
		stages[0], stages[1] = stages[1], stages[0]
	}
	for _, st := range stages {
		kind := st.kind
		b := s.get(kind)
		if b == nil {
			notes = append(notes, kind+": cannot start")
			continue
		}
		s.sync(b)
		res, model, note := b.check(extra, wantModel, st.ms)
		if res != resUnknown {
			if s.cross != "" && s.cross != kind && strings.HasPrefix(kind, "z3") {
				// thorough tier: every query decided by z3 4.8.12 is re-decided by the
				// cross solver (short budget; unknown = no opinion)
				s.crossKind, s.crossMs = s.cross, 2000
				if cb := s.get(s.cross); cb != nil {
					s.sync(cb)
					r2, _, _ := cb.check(extra, nil, s.timeoutMs)
					s.crossN++
					if r2 != resUnknown && r2 != res {
						s.crossDis++
					}
				}
			}
			return res, model, ""
		}
		notes = append(notes, kind+": "+note)
		if kind == "z3q" {
			s.preferInt = true
		}
	}
	return resUnknown, nil, strings.Join(notes, "; ")
}

// CrossCheck re-decides sat(log ∧ extra) on an independent back end and records a
// disagreement with the given primary result.
func (s *Solver) CrossCheck(kind string, extra *Term, primary checkResult) {
	s.crossKind, s.crossMs = kind, 2000 // a short, separate budget: unknown = no opinion
	b := s.get(kind)
	if b == nil {
		return
	}
	s.sync(b)
	r2, _, _ := b.check(extra, nil, s.timeoutMs)
	s.crossN++
	if r2 != resUnknown && r2 != primary {
		s.crossDis++
	}
}

func (s *Solver) Stats() map[string]solverStats {
	r := map[string]solverStats{}
	for k, b := range s.backends {
		r[k] = solverStats{b.queries, b.nsat, b.nunsat, b.nunknown, b.seconds}
	}
	for k, st := range s.retired {
		x := r[k]
		x.Queries += st.Queries
		x.Sat += st.Sat
		x.Unsat += st.Unsat
		x.Unknown += st.Unknown
		x.Seconds += st.Seconds
		r[k] = x
	}
	return r
}
