package main

// Intrinsics: functions the engine implements itself. Three groups:
//  1. the harness API (package internal/zzverif), intercepted by name;
//  2. run-time / library primitives that have no Go body or depend on unsafe,
//     assembly or the scheduler (sync, bytealg-backed strings functions, reflect);
//  3. environment stubs with written contracts (DESIGN.md §3.2).
// Everything else — all of grpchan and every pure-Go library function — runs from
// its real SSA.

import (
	"fmt"
	"go/token"
	"go/types"
	"strings"

	"golang.org/x/tools/go/ssa"
)

type intrinsicFn func(fr *frame, args []value) value

var noopIntrinsic intrinsicFn = func(fr *frame, args []value) value {
	sig := fr.fn.Signature
	if sig.Results().Len() == 0 {
		return nil
	}
	return fr.p.zero(sig.Results())
}

func (e *Engine) intrinsic(fn *ssa.Function, name string) intrinsicFn {
	if v, ok := e.intrCache.Load(fn); ok {
		f, _ := v.(intrinsicFn)
		return f
	}
	f := e.intr[name]
	if f == nil {
		f = e.patternIntrinsic(fn, name)
	}
	if f == nil {
		e.intrCache.Store(fn, 0)
		return nil
	}
	e.intrCache.Store(fn, f)
	return f
}

func (e *Engine) patternIntrinsic(fn *ssa.Function, name string) intrinsicFn {
	// package initialisers of packages outside the module are not run
	if fn.Name() == "init" && fn.Pkg != nil && fn.Signature.Recv() == nil && fn.Synthetic != "" {
		if !strings.HasPrefix(fn.Pkg.Pkg.Path(), modPath) {
			return noopIntrinsic
		}
		// grpchantesting is imported for its generated message type only; its
		// package-level test data (built with the protobuf runtime) is not used
		if fn.Pkg.Pkg.Path() == modPath+"/grpchantesting" {
			return noopIntrinsic
		}
		return nil
	}
	// generated protobuf message methods that depend on the protobuf runtime
	if recv := fn.Signature.Recv(); recv != nil {
		if st, ok := msgStruct(recv.Type()); ok && isProtoStruct(st) {
			if _, isPtr := recv.Type().Underlying().(*types.Pointer); isPtr {
				switch fn.Name() {
				case "Reset":
					return protoResetIntrinsic
				case "String":
					return func(fr *frame, a []value) value { return Str{s: "<" + typeString(recv.Type()) + ">"} }
				}
			}
		}
	}
	// generated protobuf registration code
	if fn.Pkg != nil && strings.HasPrefix(fn.Pkg.Pkg.Path(), modPath) {
		if strings.HasPrefix(fn.Name(), "file_") && strings.HasSuffix(fn.Name(), "_init") {
			return noopIntrinsic
		}
		if strings.HasPrefix(fn.Name(), "file_") && strings.HasSuffix(fn.Name(), "_rawDescGZIP") {
			return noopIntrinsic
		}
	}
	return nil
}

func apiName(n string) string { return apiPkg + "." + n }

func (p *Path) regInput(in inputVar) {
	if _, dup := p.inputIdx[in.Name]; dup {
		panic(unsupported{"harness input name used twice on one path: " + in.Name})
	}
	p.inputIdx[in.Name] = len(p.inputs)
	p.inputs = append(p.inputs, in)
}

func argStr(v value, what string) string {
	s, ok := v.(Str).Concrete()
	if !ok {
		panic(unsupported{"symbolic " + what})
	}
	return s
}

func (p *Path) symInt(name string, w int, signed bool) *Term {
	t := p.tc.Var(name, w)
	p.regInput(inputVar{Name: name, Kind: "int", W: w, Sign: signed, T: t})
	return t
}

func (p *Path) symBytes(name string, n int, kind string) []*Term {
	bs := make([]*Term, n)
	for i := range bs {
		bs[i] = p.tc.Var(fmt.Sprintf("%s#%d", name, i), 8)
	}
	p.regInput(inputVar{Name: name, Kind: kind, Bs: bs})
	return bs
}

func (p *Path) chooseNamed(name string, n int) int {
	k := p.choose(n)
	p.choices[name] = k
	p.regInput(inputVar{Name: name, Kind: "choice", Val: k})
	return k
}

func bytesToVals(bs []*Term) []value {
	r := make([]value, len(bs))
	for i, b := range bs {
		r[i] = b
	}
	return r
}

func (fr *frame) callerPos() token.Pos {
	return fr.callpos
}

func makeIntrinsics() map[string]intrinsicFn {
	m := map[string]intrinsicFn{}

	// ---- harness API ----------------------------------------------------------
	m[apiName("Symbolic")] = func(fr *frame, a []value) value { return fr.p.tc.True() }
	m[apiName("Int64")] = func(fr *frame, a []value) value { return fr.p.symInt(argStr(a[0], "name"), 64, true) }
	m[apiName("Int")] = func(fr *frame, a []value) value { return fr.p.symInt(argStr(a[0], "name"), 64, true) }
	m[apiName("Int32")] = func(fr *frame, a []value) value { return fr.p.symInt(argStr(a[0], "name"), 32, true) }
	m[apiName("Uint64")] = func(fr *frame, a []value) value { return fr.p.symInt(argStr(a[0], "name"), 64, false) }
	m[apiName("Uint32")] = func(fr *frame, a []value) value { return fr.p.symInt(argStr(a[0], "name"), 32, false) }
	m[apiName("Byte")] = func(fr *frame, a []value) value { return fr.p.symInt(argStr(a[0], "name"), 8, false) }
	m[apiName("Bool")] = func(fr *frame, a []value) value {
		name := argStr(a[0], "name")
		t := fr.p.tc.Var(name, 0)
		fr.p.regInput(inputVar{Name: name, Kind: "bool", T: t})
		return t
	}
	m[apiName("String")] = func(fr *frame, a []value) value {
		p := fr.p
		name := argStr(a[0], "name")
		n := p.chooseNamed(name+".len", int(concInt(a[1], "string cap"))+1)
		return p.mkStr(p.symBytes(name, n, "string"))
	}
	m[apiName("StringN")] = func(fr *frame, a []value) value {
		p := fr.p
		return p.mkStr(p.symBytes(argStr(a[0], "name"), int(concInt(a[1], "string len")), "string"))
	}
	m[apiName("Bytes")] = func(fr *frame, a []value) value {
		p := fr.p
		name := argStr(a[0], "name")
		n := p.chooseNamed(name+".len", int(concInt(a[1], "bytes cap"))+1)
		return bytesToVals(p.symBytes(name, n, "bytes"))
	}
	m[apiName("BytesN")] = func(fr *frame, a []value) value {
		p := fr.p
		return bytesToVals(p.symBytes(argStr(a[0], "name"), int(concInt(a[1], "bytes len")), "bytes"))
	}
	m[apiName("Choose")] = func(fr *frame, a []value) value {
		p := fr.p
		k := p.chooseNamed(argStr(a[0], "name"), int(concInt(a[1], "choose n")))
		return p.intConst(int64(k))
	}
	m[apiName("Assume")] = func(fr *frame, a []value) value { fr.p.assume(a[0].(*Term)); return nil }
	m[apiName("Assert")] = func(fr *frame, a []value) value {
		fr.p.assertCond(a[0].(*Term), argStr(a[1], "label"), fr.callpos)
		return nil
	}
	m[apiName("AssertExcept")] = func(fr *frame, a []value) value {
		fr.p.assertExcept(a[0].(*Term), argStr(a[1], "label"), argStr(a[2], "finding"), a[3].(*Term), fr.callpos)
		return nil
	}
	m[apiName("Fail")] = func(fr *frame, a []value) value {
		fr.p.assertCond(fr.p.tc.False(), argStr(a[0], "label"), fr.callpos)
		return nil
	}
	m[apiName("Reach")] = func(fr *frame, a []value) value { fr.p.reach[argStr(a[0], "label")] = true; return nil }
	m[apiName("Cut")] = func(fr *frame, a []value) value {
		fr.p.end(stCut, argStr(a[0], "reason"))
		return nil
	}
	m[apiName("Param")] = func(fr *frame, a []value) value {
		name := argStr(a[0], "param name")
		if v, ok := fr.p.cfg.Params[name]; ok {
			return fr.p.intConst(int64(v))
		}
		return a[1]
	}
	m[apiName("And")] = func(fr *frame, a []value) value { return fr.p.tc.And(a[0].(*Term), a[1].(*Term)) }
	m[apiName("Or")] = func(fr *frame, a []value) value { return fr.p.tc.Or(a[0].(*Term), a[1].(*Term)) }
	m[apiName("Implies")] = func(fr *frame, a []value) value {
		return fr.p.tc.Or(fr.p.tc.Not(a[0].(*Term)), a[1].(*Term))
	}
	m[apiName("IteByte")] = func(fr *frame, a []value) value {
		return fr.p.tc.Ite(a[0].(*Term), a[1].(*Term), a[2].(*Term))
	}
	m[apiName("IteInt64")] = func(fr *frame, a []value) value {
		return fr.p.tc.Ite(a[0].(*Term), a[1].(*Term), a[2].(*Term))
	}
	m[apiName("Yield")] = func(fr *frame, a []value) value { fr.g.yield("yield", fr.callpos); return nil }
	m[apiName("Quiesce")] = func(fr *frame, a []value) value {
		fr.g.park(&waitOp{kind: wQuiesce, opName: "quiesce", pos: fr.callpos})
		fr.g.logStep("quiesce", fr.callpos, 0)
		fr.g.wait = &waitOp{kind: wRunnable}
		return nil
	}
	m[apiName("EnvPoint")] = func(fr *frame, a []value) value {
		name := argStr(a[0], "env point name")
		fr.g.park(&waitOp{kind: wYield, opName: "envpoint", pos: fr.callpos})
		s := fr.p.sched
		s.trace = append(s.trace, schedStep{G: fr.g.id, Op: "envpoint", Pos: name, UPos: name})
		return nil
	}
	m[apiName("Point")] = func(fr *frame, a []value) value { return nil }
	m[apiName("OnModelEvent")] = func(fr *frame, a []value) value { return nil }
	m[apiName("AtomicBegin")] = func(fr *frame, a []value) value { fr.g.atomic++; return nil }
	m[apiName("AtomicEnd")] = func(fr *frame, a []value) value { fr.g.atomic--; return nil }
	m[apiName("GoEnv")] = func(fr *frame, a []value) value {
		p := fr.p
		name := argStr(a[0], "goroutine name")
		fn := a[1]
		pos := fr.callpos
		p.sched.spawn(name, true, func(g *gor) { p.callIn(g, pos, fn, nil) })
		return nil
	}
	m[apiName("AllocLimit")] = func(fr *frame, a []value) value {
		fr.p.ghost["alloc-limit"] = a[0]
		return nil
	}
	m[apiName("KnownPanic")] = func(fr *frame, a []value) value {
		fr.p.ghost["known:"+argStr(a[0], "label")] = Str{s: argStr(a[1], "finding")}
		return nil
	}
	m[apiName("Observe")] = func(fr *frame, a []value) value {
		p := fr.p
		var vs []value
		if sl, ok := a[1].([]value); ok {
			vs = append(vs, sl...)
		}
		p.obs = append(p.obs, obsEntry{Label: argStr(a[0], "label"), Terms: vs})
		return nil
	}
	m[apiName("Preempted")] = func(fr *frame, a []value) value {
		return fr.p.intConst(int64(fr.p.sched.preempt))
	}

	// ---- sync ---------------------------------------------------------------------
	m["(*sync.Mutex).Lock"] = func(fr *frame, a []value) value {
		mu := fr.p.mutexOf(a[0].(*value))
		fr.g.park(&waitOp{kind: wLock, mu: mu, opName: "Lock", pos: fr.callpos})
		fr.g.logStep("Lock", fr.callpos, 0)
		mu.locked, mu.writer, mu.owner = true, true, fr.g.id
		fr.g.wait = &waitOp{kind: wRunnable}
		return nil
	}
	m["(*sync.Mutex).TryLock"] = func(fr *frame, a []value) value {
		mu := fr.p.mutexOf(a[0].(*value))
		fr.g.yield("TryLock", fr.callpos)
		if mu.locked {
			return fr.p.tc.False()
		}
		mu.locked, mu.writer, mu.owner = true, true, fr.g.id
		return fr.p.tc.True()
	}
	m["(*sync.Mutex).Unlock"] = func(fr *frame, a []value) value {
		mu := fr.p.mutexOf(a[0].(*value))
		if !mu.locked {
			panic(runtimePanic{"sync: unlock of unlocked mutex"})
		}
		mu.locked, mu.writer = false, false
		return nil
	}
	m["(*sync.RWMutex).Lock"] = m["(*sync.Mutex).Lock"]
	m["(*sync.RWMutex).Unlock"] = m["(*sync.Mutex).Unlock"]
	m["(*sync.RWMutex).RLock"] = func(fr *frame, a []value) value {
		mu := fr.p.mutexOf(a[0].(*value))
		fr.g.park(&waitOp{kind: wRLock, mu: mu, opName: "RLock", pos: fr.callpos})
		fr.g.logStep("RLock", fr.callpos, 0)
		mu.readers++
		fr.g.wait = &waitOp{kind: wRunnable}
		return nil
	}
	m["(*sync.RWMutex).RUnlock"] = func(fr *frame, a []value) value {
		mu := fr.p.mutexOf(a[0].(*value))
		if mu.readers <= 0 {
			panic(runtimePanic{"sync: RUnlock of unlocked RWMutex"})
		}
		mu.readers--
		return nil
	}
	wgAdd := func(fr *frame, wg *wgState, n int64) {
		wg.n += n
		if wg.n < 0 {
			panic(runtimePanic{"sync: negative WaitGroup counter"})
		}
	}
	m["(*sync.WaitGroup).Add"] = func(fr *frame, a []value) value {
		wgAdd(fr, fr.p.wgOf(a[0].(*value)), concInt(a[1], "WaitGroup delta"))
		return nil
	}
	m["(*sync.WaitGroup).Done"] = func(fr *frame, a []value) value {
		wgAdd(fr, fr.p.wgOf(a[0].(*value)), -1)
		return nil
	}
	m["(*sync.WaitGroup).Wait"] = func(fr *frame, a []value) value {
		wg := fr.p.wgOf(a[0].(*value))
		fr.g.park(&waitOp{kind: wWG, wg: wg, opName: "Wait", pos: fr.callpos})
		fr.g.logStep("Wait", fr.callpos, 0)
		fr.g.wait = &waitOp{kind: wRunnable}
		return nil
	}
	m["(*sync.Once).Do"] = func(fr *frame, a []value) value {
		p := fr.p
		addr := a[0].(*value)
		o := p.onces[addr]
		if o == nil {
			o = &onceState{}
			p.onces[addr] = o
		}
		fr.g.park(&waitOp{kind: wLock, mu: &o.mu, opName: "Once.Do", pos: fr.callpos})
		fr.g.wait = &waitOp{kind: wRunnable}
		if o.done {
			return nil
		}
		o.mu.locked = true
		defer func() { o.mu.locked = false; o.done = true }()
		p.call(fr, fr.callpos, a[1], nil)
		return nil
	}
	for _, ty := range []string{"Int32", "Int64", "Uint32", "Uint64"} {
		ty := ty
		m["sync/atomic.Add"+ty] = func(fr *frame, a []value) value {
			addr := a[0].(*value)
			fr.g.yield("atomic.Add", fr.callpos)
			nv := fr.p.tc.Bin(OpAdd, load(addr).(*Term), a[1].(*Term))
			store(addr, nv)
			return nv
		}
		m["sync/atomic.Load"+ty] = func(fr *frame, a []value) value {
			fr.g.yield("atomic.Load", fr.callpos)
			return load(a[0].(*value))
		}
		m["sync/atomic.Store"+ty] = func(fr *frame, a []value) value {
			fr.g.yield("atomic.Store", fr.callpos)
			store(a[0].(*value), a[1])
			return nil
		}
		m["sync/atomic.CompareAndSwap"+ty] = func(fr *frame, a []value) value {
			addr := a[0].(*value)
			fr.g.yield("atomic.CAS", fr.callpos)
			if fr.p.branch(fr.p.tc.Eq(load(addr).(*Term), a[1].(*Term))) {
				store(addr, a[2])
				return fr.p.tc.True()
			}
			return fr.p.tc.False()
		}
	}
	m["runtime.SetFinalizer"] = func(fr *frame, a []value) value { return nil }
	m["runtime.Gosched"] = func(fr *frame, a []value) value { fr.g.yield("Gosched", fr.callpos); return nil }
	m["runtime.KeepAlive"] = func(fr *frame, a []value) value { return nil }

	addStringIntrinsics(m)
	addFmtIntrinsics(m)
	addReflectIntrinsics(m)
	addLibIntrinsics(m)
	addProtoIntrinsics(m)
	addDynIntrinsics(m)
	addBase64Intrinsics(m)
	return m
}

// fakeMethod resolves interface method calls on engine-implemented dynamic
// types (reflect.Type).
func (p *Path) fakeMethod(recv iface, meth *types.Func) value {
	if _, ok := recv.v.(rtype); ok {
		return rtypeMethod(meth.Name())
	}
	if recv.t == fakeCodecType {
		return codecMethod(meth.Name())
	}
	return nil
}

func isFakeType(t types.Type) bool {
	return t == fakeRtypeType || t == fakeCodecType
}

var fakeRtypeType = types.NewNamed(types.NewTypeName(token.NoPos, nil, "gosym.rtype", nil), types.NewStruct(nil, nil), nil)
