package main

import (
	"fmt"
	"go/types"
	"mime"
	"net/textproto"
	"strings"
	"unicode/utf8"
)

// String intrinsics. Each is the specification of the corresponding library
// function on strings whose length is concrete on the path and whose bytes are
// terms. Where the library behaviour depends on non-ASCII content that is
// symbolic, the path forks once on "all bytes are ASCII" and the non-ASCII side is
// handled natively when concrete and otherwise cut as outside the bound.

func (p *Path) allASCII(bs []*Term) *Term {
	r := p.tc.True()
	for _, b := range bs {
		r = p.tc.And(r, p.tc.Cmp(OpULt, b, p.tc.BV(8, 0x80)))
	}
	return r
}

func (p *Path) inRange(b *Term, lo, hi byte) *Term {
	return p.tc.And(p.tc.Cmp(OpULe, p.tc.BV(8, uint64(lo)), b), p.tc.Cmp(OpULe, b, p.tc.BV(8, uint64(hi))))
}

// matchAt returns the term "sub occurs in s at offset i".
func (p *Path) matchAt(s, sub []*Term, i int) *Term {
	r := p.tc.True()
	for j := range sub {
		r = p.tc.And(r, p.tc.Eq(s[i+j], sub[j]))
		if isFalse(r) {
			return r
		}
	}
	return r
}

// indexOf forks over the position of the first occurrence of sub in s.
func (p *Path) indexOf(s, sub []*Term) int {
	n, m := len(s), len(sub)
	if m == 0 {
		return 0
	}
	for i := 0; i+m <= n; i++ {
		if p.branch(p.matchAt(s, sub, i)) {
			return i
		}
	}
	return -1
}

func (p *Path) lastIndexOf(s, sub []*Term) int {
	n, m := len(s), len(sub)
	if m == 0 {
		return n
	}
	for i := n - m; i >= 0; i-- {
		if p.branch(p.matchAt(s, sub, i)) {
			return i
		}
	}
	return -1
}

func (p *Path) strSlice(s Str, lo, hi int) Str {
	if s.b == nil {
		return Str{s: s.s[lo:hi]}
	}
	return p.mkStr(s.b[lo:hi])
}

func (p *Path) strListVal(parts []Str) value {
	r := make([]value, len(parts))
	for i, s := range parts {
		r[i] = s
	}
	return r
}

func addStringIntrinsics(m map[string]intrinsicFn) {
	both := func(names []string, f intrinsicFn) {
		for _, n := range names {
			m[n] = f
		}
	}
	m["internal/stringslite.Clone"] = func(fr *frame, a []value) value { return a[0] }
	m["strings.Clone"] = func(fr *frame, a []value) value { return a[0] }
	m["strings.Index"] = func(fr *frame, a []value) value {
		p := fr.p
		s, sub := a[0].(Str), a[1].(Str)
		if s.b == nil && sub.b == nil {
			return p.intConst(int64(strings.Index(s.s, sub.s)))
		}
		return p.intConst(int64(p.indexOf(p.bytesOf(s), p.bytesOf(sub))))
	}
	m["strings.LastIndex"] = func(fr *frame, a []value) value {
		p := fr.p
		s, sub := a[0].(Str), a[1].(Str)
		if s.b == nil && sub.b == nil {
			return p.intConst(int64(strings.LastIndex(s.s, sub.s)))
		}
		return p.intConst(int64(p.lastIndexOf(p.bytesOf(s), p.bytesOf(sub))))
	}
	both([]string{"strings.IndexByte", "internal/bytealg.IndexByteString"}, func(fr *frame, a []value) value {
		p := fr.p
		s := a[0].(Str)
		return p.intConst(int64(p.indexOf(p.bytesOf(s), []*Term{a[1].(*Term)})))
	})
	m["strings.LastIndexByte"] = func(fr *frame, a []value) value {
		p := fr.p
		s := a[0].(Str)
		return p.intConst(int64(p.lastIndexOf(p.bytesOf(s), []*Term{a[1].(*Term)})))
	}
	m["strings.Contains"] = func(fr *frame, a []value) value {
		p := fr.p
		s, sub := a[0].(Str), a[1].(Str)
		if s.b == nil && sub.b == nil {
			return p.tc.Bool(strings.Contains(s.s, sub.s))
		}
		// term-level: OR over positions, no fork
		sb, ub := p.bytesOf(s), p.bytesOf(sub)
		r := p.tc.False()
		for i := 0; i+len(ub) <= len(sb); i++ {
			r = p.tc.Or(r, p.matchAt(sb, ub, i))
		}
		if len(ub) == 0 {
			r = p.tc.True()
		}
		return r
	}
	m["strings.HasPrefix"] = func(fr *frame, a []value) value {
		p := fr.p
		s, pre := a[0].(Str), a[1].(Str)
		if s.Len() < pre.Len() {
			return p.tc.False()
		}
		return p.equals(nil, p.strSlice(s, 0, pre.Len()), pre)
	}
	m["strings.HasSuffix"] = func(fr *frame, a []value) value {
		p := fr.p
		s, suf := a[0].(Str), a[1].(Str)
		if s.Len() < suf.Len() {
			return p.tc.False()
		}
		return p.equals(nil, p.strSlice(s, s.Len()-suf.Len(), s.Len()), suf)
	}
	m["strings.Count"] = func(fr *frame, a []value) value {
		p := fr.p
		s, sub := a[0].(Str), a[1].(Str)
		if s.b == nil && sub.b == nil {
			return p.intConst(int64(strings.Count(s.s, sub.s)))
		}
		if sub.Len() == 0 {
			panic(unsupported{"strings.Count with empty separator on symbolic string"})
		}
		sb, ub := p.bytesOf(s), p.bytesOf(sub)
		cnt := 0
		for i := 0; i+len(ub) <= len(sb); {
			if p.branch(p.matchAt(sb, ub, i)) {
				cnt++
				i += len(ub)
			} else {
				i++
			}
		}
		return p.intConst(int64(cnt))
	}
	m["strings.SplitN"] = func(fr *frame, a []value) value {
		p := fr.p
		s, sep := a[0].(Str), a[1].(Str)
		n := int(concInt(a[2], "SplitN n"))
		if s.b == nil && sep.b == nil {
			parts := strings.SplitN(s.s, sep.s, n)
			if parts == nil {
				return []value(nil)
			}
			r := make([]Str, len(parts))
			for i, x := range parts {
				r[i] = Str{s: x}
			}
			return p.strListVal(r)
		}
		if n == 0 {
			return []value(nil)
		}
		if sep.Len() == 0 {
			panic(unsupported{"strings.SplitN with empty separator on symbolic string"})
		}
		var parts []Str
		rest := s
		for n < 0 || len(parts) < n-1 {
			i := p.indexOf(p.bytesOf(rest), p.bytesOf(sep))
			if i < 0 {
				break
			}
			parts = append(parts, p.strSlice(rest, 0, i))
			rest = p.strSlice(rest, i+sep.Len(), rest.Len())
		}
		parts = append(parts, rest)
		return p.strListVal(parts)
	}
	m["strings.Split"] = func(fr *frame, a []value) value {
		return m["strings.SplitN"](fr, []value{a[0], a[1], fr.p.intConst(-1)})
	}
	m["strings.Join"] = func(fr *frame, a []value) value {
		p := fr.p
		elems := a[0].([]value)
		sep := a[1].(Str)
		var out []*Term
		for i, e := range elems {
			if i > 0 {
				out = append(out, p.bytesOf(sep)...)
			}
			out = append(out, p.bytesOf(e.(Str))...)
		}
		return p.mkStr(out)
	}
	caseMap := func(lower bool) intrinsicFn {
		return func(fr *frame, a []value) value {
			p := fr.p
			s := a[0].(Str)
			if c, ok := s.Concrete(); ok {
				if lower {
					return Str{s: strings.ToLower(c)}
				}
				return Str{s: strings.ToUpper(c)}
			}
			if !p.branch(p.allASCII(s.b)) {
				p.end(stCut, "case mapping of a symbolic string with non-ASCII bytes (outside bound)")
			}
			out := make([]*Term, len(s.b))
			for i, b := range s.b {
				if lower {
					out[i] = p.tc.Ite(p.inRange(b, 'A', 'Z'), p.tc.Bin(OpAdd, b, p.tc.BV(8, 32)), b)
				} else {
					out[i] = p.tc.Ite(p.inRange(b, 'a', 'z'), p.tc.Bin(OpSub, b, p.tc.BV(8, 32)), b)
				}
			}
			return p.mkStr(out)
		}
	}
	m["strings.ToLower"] = caseMap(true)
	m["strings.ToUpper"] = caseMap(false)
	m["strings.TrimSpace"] = func(fr *frame, a []value) value {
		p := fr.p
		s := a[0].(Str)
		if c, ok := s.Concrete(); ok {
			return Str{s: strings.TrimSpace(c)}
		}
		if !p.branch(p.allASCII(s.b)) {
			p.end(stCut, "TrimSpace of a symbolic string with non-ASCII bytes (outside bound)")
		}
		isSp := func(b *Term) *Term {
			tc := p.tc
			r := tc.Eq(b, tc.BV(8, ' '))
			for _, c := range []byte{'\t', '\n', '\v', '\f', '\r'} {
				r = tc.Or(r, tc.Eq(b, tc.BV(8, uint64(c))))
			}
			return r
		}
		lo, hi := 0, len(s.b)
		for lo < hi && p.branch(isSp(s.b[lo])) {
			lo++
		}
		for hi > lo && p.branch(isSp(s.b[hi-1])) {
			hi--
		}
		return p.mkStr(s.b[lo:hi])
	}
	m["strings.EqualFold"] = func(fr *frame, a []value) value {
		p := fr.p
		s, t := a[0].(Str), a[1].(Str)
		if cs, ok := s.Concrete(); ok {
			if ct, ok := t.Concrete(); ok {
				return p.tc.Bool(strings.EqualFold(cs, ct))
			}
		}
		panic(unsupported{"strings.EqualFold on symbolic strings"})
	}
	m["unicode/utf8.ValidString"] = func(fr *frame, a []value) value {
		p := fr.p
		s := a[0].(Str)
		if c, ok := s.Concrete(); ok {
			return p.tc.Bool(utf8.ValidString(c))
		}
		return p.utf8Valid(s.b)
	}
	m["unicode/utf8.Valid"] = func(fr *frame, a []value) value {
		p := fr.p
		bs := a[0].([]value)
		ts := make([]*Term, len(bs))
		for i, b := range bs {
			ts[i] = b.(*Term)
		}
		return p.utf8Valid(ts)
	}
	// mime.ParseMediaType: concrete input runs the real parser natively; a symbolic
	// input is handled for parameter-less values only: valid "token[/token]" is
	// returned lower-cased, anything else is the parser's error (empty media type).
	m["mime.ParseMediaType"] = func(fr *frame, a []value) value {
		p := fr.p
		tc := p.tc
		s := a[0].(Str)
		mt := fr.fn.Signature.Results().At(1).Type()
		if c, ok := s.Concrete(); ok {
			mediatype, params, err := mime.ParseMediaType(c)
			var pm *smap
			if params != nil {
				u := mt.Underlying().(*types.Map)
				pm = &smap{kt: u.Key(), vt: u.Elem()}
				for k, v := range params {
					pm.insert(p, Str{s: k}, Str{s: v})
				}
			}
			var ev value = iface{}
			if err != nil {
				ev = p.newErrorString(err.Error())
			}
			return tuple{Str{s: mediatype}, pm, ev}
		}
		bs := s.b
		valid := tc.True()
		slashes := tc.BV(8, 0)
		for _, b := range bs {
			isSlash := tc.Eq(b, tc.BV(8, '/'))
			tok := tc.And(tc.Cmp(OpULt, tc.BV(8, 0x20), b), tc.Cmp(OpULt, b, tc.BV(8, 0x7f)))
			for _, sp := range []byte("()<>@,;:\\\"/[]?=") {
				tok = tc.And(tok, tc.Ne(b, tc.BV(8, uint64(sp))))
			}
			valid = tc.And(valid, tc.Or(tok, isSlash))
			slashes = tc.Bin(OpAdd, slashes, tc.Ite(isSlash, tc.BV(8, 1), tc.BV(8, 0)))
		}
		valid = tc.And(valid, tc.Cmp(OpULe, slashes, tc.BV(8, 1)))
		if len(bs) > 0 {
			valid = tc.And(valid, tc.And(tc.Ne(bs[0], tc.BV(8, '/')), tc.Ne(bs[len(bs)-1], tc.BV(8, '/'))))
		}
		if !p.branch(valid) {
			return tuple{Str{}, (*smap)(nil), p.newErrorString("mime: invalid media type")}
		}
		out := make([]*Term, len(bs))
		for i, b := range bs {
			out[i] = tc.Ite(p.inRange(b, 'A', 'Z'), tc.Bin(OpAdd, b, tc.BV(8, 32)), b)
		}
		return tuple{p.mkStr(out), (*smap)(nil), iface{}}
	}
	m["net/textproto.CanonicalMIMEHeaderKey"] = func(fr *frame, a []value) value {
		p := fr.p
		s := a[0].(Str)
		if c, ok := s.Concrete(); ok {
			return Str{s: textproto.CanonicalMIMEHeaderKey(c)}
		}
		// symbolic: fork once on "every byte is a valid header field byte"
		tc := p.tc
		valid := tc.True()
		for _, b := range s.b {
			valid = tc.And(valid, p.isTokenByte(b))
		}
		if !p.branch(valid) {
			return s // returned unchanged (net/textproto)
		}
		out := make([]*Term, len(s.b))
		upper := tc.True()
		for i, b := range s.b {
			toUp := tc.Ite(p.inRange(b, 'a', 'z'), tc.Bin(OpSub, b, tc.BV(8, 32)), b)
			toLo := tc.Ite(p.inRange(b, 'A', 'Z'), tc.Bin(OpAdd, b, tc.BV(8, 32)), b)
			out[i] = tc.Ite(upper, toUp, toLo)
			upper = tc.Eq(b, tc.BV(8, '-'))
		}
		return p.mkStr(out)
	}
}

// isTokenByte is net/textproto's validHeaderFieldByte (RFC 7230 tchar).
func (p *Path) isTokenByte(b *Term) *Term {
	tc := p.tc
	r := tc.Or(p.inRange(b, '0', '9'), tc.Or(p.inRange(b, 'a', 'z'), p.inRange(b, 'A', 'Z')))
	for _, c := range []byte("!#$%&'*+-.^_`|~") {
		r = tc.Or(r, tc.Eq(b, tc.BV(8, uint64(c))))
	}
	return r
}

// utf8Valid builds the term "bs is valid UTF-8" (RFC 3629 well-formedness table
// as implemented by unicode/utf8), without forking.
func (p *Path) utf8Valid(bs []*Term) *Term {
	tc := p.tc
	n := len(bs)
	// ok[i] = bs[i:] is valid
	ok := make([]*Term, n+1)
	ok[n] = tc.True()
	rng := func(b *Term, lo, hi byte) *Term { return p.inRange(b, lo, hi) }
	for i := n - 1; i >= 0; i-- {
		b0 := bs[i]
		r := tc.And(tc.Cmp(OpULt, b0, tc.BV(8, 0x80)), ok[i+1])
		if i+1 < n {
			two := tc.And(rng(b0, 0xC2, 0xDF), rng(bs[i+1], 0x80, 0xBF))
			r = tc.Or(r, tc.And(two, ok[i+2]))
		}
		if i+2 < n {
			b1, b2 := bs[i+1], bs[i+2]
			c2 := rng(b2, 0x80, 0xBF)
			three := tc.Or(tc.And(tc.Eq(b0, tc.BV(8, 0xE0)), rng(b1, 0xA0, 0xBF)),
				tc.Or(tc.And(rng(b0, 0xE1, 0xEC), rng(b1, 0x80, 0xBF)),
					tc.Or(tc.And(tc.Eq(b0, tc.BV(8, 0xED)), rng(b1, 0x80, 0x9F)),
						tc.And(rng(b0, 0xEE, 0xEF), rng(b1, 0x80, 0xBF)))))
			r = tc.Or(r, tc.And(tc.And(three, c2), ok[i+3]))
		}
		if i+3 < n {
			b1, b2, b3 := bs[i+1], bs[i+2], bs[i+3]
			cc := tc.And(rng(b2, 0x80, 0xBF), rng(b3, 0x80, 0xBF))
			four := tc.Or(tc.And(tc.Eq(b0, tc.BV(8, 0xF0)), rng(b1, 0x90, 0xBF)),
				tc.Or(tc.And(rng(b0, 0xF1, 0xF3), rng(b1, 0x80, 0xBF)),
					tc.And(tc.Eq(b0, tc.BV(8, 0xF4)), rng(b1, 0x80, 0x8F))))
			r = tc.Or(r, tc.And(tc.And(four, cc), ok[i+4]))
		}
		ok[i] = r
	}
	return ok[0]
}

var _ = fmt.Sprintf
