package main

// A Path is one symbolic execution from the harness entry point: a vector of
// decisions (symbolic branches, scheduler picks, select cases, length splits,
// map orders, concretisations), the path condition, and the verdicts collected
// on the way. Paths are explored by deterministic re-execution from decision
// prefixes.

import (
	"fmt"
	"go/token"
	"sort"
	"strings"

	"golang.org/x/tools/go/ssa"
)

type decision struct {
	Kind byte // 'b' branch, 'c' choose, 'v' concretise value
	N    int  // number of alternatives known when the decision was taken
	Pick int  // branch: 1=true 0=false; choose: index; concretise: the value
}

type pathStatus int

const (
	stComplete pathStatus = iota
	stInfeasible
	stCut
	stUnsupported
	stInconclusive
	stUnwind
)

func (s pathStatus) String() string {
	return [...]string{"complete", "infeasible", "cut", "unsupported", "inconclusive", "unwind"}[s]
}

// control-flow panics of the engine itself
type unsupported struct{ msg string }
type pathEnd struct {
	status pathStatus
	msg    string
}
type abortPath struct{}
type runtimePanic struct{ msg string } // Go run-time panic in the target (becomes a targetPanic)
type targetPanic struct {
	v     value
	pos   token.Pos
	stack []string
}

type inputVar struct {
	Name string
	Kind string  // "int","bool","bytes","string","choice"
	W    int     // width for ints
	Sign bool    // signed
	T    *Term   // for scalars
	Bs   []*Term // for strings/bytes
	Val  int     // for choices
}

type schedStep struct {
	G    int    `json:"g"`
	Op   string `json:"op"`
	Pos  string `json:"pos,omitempty"`
	UPos string `json:"upos,omitempty"`
	Case int    `json:"case"`
	// Skip: the operation has no replay point in the instrumented native build
	// (it happens inside the standard library or inside a model)
	Skip bool `json:"skip,omitempty"`
}

type gorInfo struct {
	ID   int    `json:"id"`
	Name string `json:"name"`
	Env  bool   `json:"env"`
}

type Violation struct {
	Label   string
	Known   string // known-finding id if inside a recorded region
	Msg     string
	Pos     string
	Model   map[string]uint64
	Inputs  []inputVar
	Choices map[string]int
	Sched   []schedStep
	Trace   []decision
	Harness string
	Stack   []string
	Gors    []gorInfo
}

type obsEntry struct {
	Label string
	Terms []value
}

type Path struct {
	shallowMerge bool // set while a merge involving a dynamic message runs (intr_proto.go)
	eng     *Engine
	cfg     *Config
	tc      *TermCtx
	sol     *Solver
	harness *ssa.Function

	prefix []decision
	trace  []decision

	globals  map[*ssa.Global]*value
	initDone map[*ssa.Package]bool

	inputs    []inputVar
	inputIdx  map[string]int
	choices   map[string]int
	steps     int
	sched     *Sched
	status    pathStatus
	statusMsg string

	obligations  int
	discharged   int
	trivial      int
	undischarged []string
	violations   []Violation
	reach        map[string]bool
	obs          []obsEntry
	notes        map[string]int
	funcsRun     map[*ssa.Function]bool
	ghost        map[string]value

	lenient bool
	curFr   *frame
	forkLog map[string]int
	mapOrderUsed int
	facts   map[int]bool
	models  []*cachedModel
	cacheHits int
	decSeq  int
	sample  *obsSample
	mon     *monitor
	mutexes map[*value]*mutexState
	wgs     map[*value]*wgState
	onces   map[*value]*onceState
	objSeq  int
}

func (p *Path) following() bool { return len(p.trace) < len(p.prefix) }

func (p *Path) note(s string) {
	p.notes[s]++
}

func (p *Path) end(st pathStatus, msg string) {
	panic(pathEnd{st, msg})
}

// addPC adds a constraint to the path condition: it is sent to the solver, the
// cached models that violate it are dropped, and the fact is remembered so that
// the same condition is not asked again.
func (p *Path) addPC(c *Term) {
	if isTrue(c) {
		return
	}
	p.sol.Assert(c)
	if p.facts == nil {
		p.facts = map[int]bool{}
	}
	p.facts[c.id] = true
	if c.op == OpNot {
		p.facts[-c.args[0].id] = true
	}
	keep := p.models[:0]
	for _, m := range p.models {
		if evalTerm(c, m.vals, m.memo) == 1 {
			keep = append(keep, m)
		}
	}
	p.models = keep
}

type cachedModel struct {
	vals map[string]uint64
	memo map[int]uint64
}

func (p *Path) cacheModel(vals map[string]uint64) {
	if vals == nil {
		return
	}
	if len(p.models) >= 3 {
		p.models = p.models[1:]
	}
	p.models = append(p.models, &cachedModel{vals: vals, memo: map[int]uint64{}})
}

func (p *Path) anyModel() map[string]uint64 {
	if len(p.models) > 0 {
		return p.models[len(p.models)-1].vals
	}
	return nil
}

// feasible decides sat(pc ∧ c), first from known facts and cached models (a model
// of pc under which c evaluates to true is a witness), then by the solver.
func (p *Path) feasible(c *Term) checkResult {
	if c.IsConst() {
		if c.val == 1 {
			return resSat
		}
		return resUnsat
	}
	if p.facts[c.id] {
		return resSat
	}
	if p.facts[-c.id] {
		return resUnsat
	}
	if c.op == OpNot && p.facts[c.args[0].id] {
		return resUnsat
	}
	for _, m := range p.models {
		if evalTerm(c, m.vals, m.memo) == 1 {
			p.cacheHits++
			return resSat
		}
	}
	r, model, _ := p.sol.Check(c, p.tc.vars)
	if r == resSat {
		p.cacheModel(model)
	}
	return r
}

// branch decides a symbolic condition, forking the exploration if both outcomes
// are feasible under the path condition.
func (p *Path) branch(cond *Term) bool {
	if cond.w != 0 {
		panic("branch on non-bool term")
	}
	if cond.IsConst() {
		return cond.val == 1
	}
	i := len(p.trace)
	if i < len(p.prefix) {
		d := p.prefix[i]
		if d.Kind != 'b' {
			panic(fmt.Sprintf("replay divergence: expected decision kind %c at %d, got branch", d.Kind, i))
		}
		p.trace = append(p.trace, d)
		if d.Pick == 1 {
			p.addPC(cond)
		} else {
			p.addPC(p.tc.Not(cond))
		}
		return d.Pick == 1
	}
	ncond := p.tc.Not(cond)
	rt := p.feasible(cond)
	rf := p.feasible(ncond)
	if rt == resUnknown || rf == resUnknown {
		p.note("undecided-branch-kept")
	}
	tOK := rt != resUnsat
	fOK := rf != resUnsat
	switch {
	case tOK && fOK:
		p.logFork("branch")
		alt := append(append([]decision{}, p.trace...), decision{'b', 2, 0})
		p.eng.push(p.harness, alt, p.modelFor(ncond))
		p.trace = append(p.trace, decision{'b', 2, 1})
		p.addPC(cond)
		return true
	case tOK:
		p.trace = append(p.trace, decision{'b', 1, 1})
		p.addPC(cond)
		return true
	case fOK:
		p.trace = append(p.trace, decision{'b', 1, 0})
		p.addPC(ncond)
		return false
	}
	p.end(stInfeasible, "path condition unsatisfiable")
	return false
}

func (p *Path) logFork(kind string) {
	if p.forkLog == nil {
		p.forkLog = map[string]int{}
	}
	where := "?"
	if fr := p.curFr; fr != nil && fr.fn != nil {
		where = fmt.Sprintf("%s %v", p.posStr(fr.curPos()), fr.fn)
	}
	p.forkLog[kind+" @ "+where]++
}

// modelFor returns a cached model under which c holds (nil if none).
func (p *Path) modelFor(c *Term) map[string]uint64 {
	for _, m := range p.models {
		if evalTerm(c, m.vals, m.memo) == 1 {
			return m.vals
		}
	}
	return nil
}

// choose makes a non-solver choice among n alternatives (scheduler, select
// case, map order, length split). All alternatives are explored.
func (p *Path) choose(n int) int {
	if n <= 1 {
		return 0
	}
	i := len(p.trace)
	if i < len(p.prefix) {
		d := p.prefix[i]
		if d.Kind != 'c' || d.Pick >= n {
			panic(fmt.Sprintf("replay divergence: expected choose(%d) at %d, got %c/%d/%d", n, i, d.Kind, d.N, d.Pick))
		}
		p.trace = append(p.trace, d)
		return d.Pick
	}
	p.logFork(fmt.Sprintf("choose%d", n))
	for k := n - 1; k >= 1; k-- {
		alt := append(append([]decision{}, p.trace...), decision{'c', n, k})
		p.eng.push(p.harness, alt, p.anyModel())
	}
	p.trace = append(p.trace, decision{'c', n, 0})
	return 0
}

// concretize forks over the feasible concrete values of t in [lo, hi].
func (p *Path) concretize(t *Term, signed bool, lo, hi int64) int64 {
	if t.IsConst() {
		if signed {
			return sext64(t.val, t.w)
		}
		return int64(t.val)
	}
	i := len(p.trace)
	if i < len(p.prefix) {
		d := p.prefix[i]
		if d.Kind != 'v' {
			panic("replay divergence: expected concretise")
		}
		p.trace = append(p.trace, d)
		p.addPC(p.tc.Eq(t, p.tc.BV(t.w, uint64(int64(d.Pick)))))
		return int64(d.Pick)
	}
	if hi-lo > int64(p.cfg.MaxConcretize) {
		panic(unsupported{fmt.Sprintf("concretise over range [%d,%d] too large", lo, hi)})
	}
	var feas []int64
	var eqs []*Term
	for k := lo; k <= hi; k++ {
		eq := p.tc.Eq(t, p.tc.BV(t.w, uint64(k)))
		if p.feasible(eq) != resUnsat {
			feas = append(feas, k)
			eqs = append(eqs, eq)
		}
	}
	if len(feas) == 0 {
		p.end(stInfeasible, "no feasible concrete value")
	}
	for j, k := range feas[1:] {
		alt := append(append([]decision{}, p.trace...), decision{'v', len(feas), int(k)})
		p.eng.push(p.harness, alt, p.modelFor(eqs[j+1]))
	}
	p.trace = append(p.trace, decision{'v', len(feas), int(feas[0])})
	p.addPC(eqs[0])
	return feas[0]
}

func (p *Path) assume(cond *Term) {
	if isTrue(cond) {
		return
	}
	if isFalse(cond) {
		p.end(stInfeasible, "assumption false")
	}
	if !p.following() {
		if p.feasible(cond) == resUnsat {
			p.end(stInfeasible, "assumption unsatisfiable")
		}
	}
	p.addPC(cond)
}

func (p *Path) inputTerms() []*Term {
	// every declared variable (harness inputs and engine-introduced auxiliaries)
	return append([]*Term{}, p.tc.vars...)
}

func (p *Path) posStr(pos token.Pos) string {
	if pos == token.NoPos {
		return ""
	}
	ps := p.eng.prog.Fset.Position(pos)
	f := ps.Filename
	if strings.HasPrefix(f, p.eng.scratch) {
		f = strings.TrimPrefix(f, p.eng.scratch)
		f = strings.TrimPrefix(f, "/")
	}
	return fmt.Sprintf("%s:%d", f, ps.Line)
}

func (p *Path) mkViolation(label, known, msg string, pos token.Pos, model map[string]uint64) Violation {
	ch := map[string]int{}
	for k, v := range p.choices {
		ch[k] = v
	}
	v := Violation{Label: label, Known: known, Msg: msg, Pos: p.posStr(pos), Model: model,
		Inputs: append([]inputVar{}, p.inputs...), Choices: ch,
		Trace: append([]decision{}, p.trace...), Harness: p.harness.Name()}
	if p.sched != nil {
		v.Sched = append([]schedStep{}, p.sched.trace...)
		for _, g := range p.sched.gs {
			v.Gors = append(v.Gors, gorInfo{g.id, g.name, g.env})
		}
	}
	return v
}

// assertCond checks an assertion: can cond be false under the path condition?
func (p *Path) assertCond(cond *Term, label string, pos token.Pos) {
	if p.following() {
		// already decided by the path this one was forked from
		if isFalse(cond) {
			p.end(stCut, "assertion "+label+" fails unconditionally (reported by parent path)")
		}
		p.addPC(cond)
		return
	}
	p.obligations++
	if isTrue(cond) {
		p.trivial++
		p.discharged++
		return
	}
	res, model, note := p.sol.Check(p.tc.Not(cond), p.inputTerms())
	if res == resUnsat && p.cfg.CrossAsserts != "" && p.sol.cross == "" {
		// every discharged obligation is re-decided by an independent solver
		p.sol.CrossCheck(p.cfg.CrossAsserts, p.tc.Not(cond), res)
	}
	switch res {
	case resUnsat:
		p.discharged++
	case resSat:
		p.violations = append(p.violations, p.mkViolation(label, "", "assertion can fail", pos, model))
	default:
		p.undischarged = append(p.undischarged, label+": "+note)
	}
	if isFalse(cond) {
		p.end(stCut, "assertion "+label+" fails unconditionally")
	}
	p.addPC(cond)
}

// assertExcept is assertCond with a recorded known-finding region: violations
// inside the region are attributed to the finding, those outside are new.
func (p *Path) assertExcept(cond *Term, label, kf string, region *Term, pos token.Pos) {
	if p.following() {
		if isFalse(cond) {
			p.end(stCut, "assertion "+label+" fails unconditionally (reported by parent path)")
		}
		p.addPC(cond)
		return
	}
	p.obligations++
	if isTrue(cond) {
		p.trivial++
		p.discharged++
		return
	}
	nc := p.tc.Not(cond)
	// outside the region
	res, model, note := p.sol.Check(p.tc.And(nc, p.tc.Not(region)), p.inputTerms())
	switch res {
	case resUnsat:
		p.discharged++
	case resSat:
		p.violations = append(p.violations, p.mkViolation(label, "", "assertion can fail outside known-finding region "+kf, pos, model))
	default:
		p.undischarged = append(p.undischarged, label+": "+note)
	}
	// inside the region
	res2, model2, _ := p.sol.Check(p.tc.And(nc, region), p.inputTerms())
	if res2 == resSat {
		p.violations = append(p.violations, p.mkViolation(label, kf, "known finding region", pos, model2))
	}
	if isFalse(cond) {
		p.end(stCut, "assertion "+label+" fails unconditionally")
	}
	p.addPC(cond)
}

// violationNow records a violation that holds on this path unconditionally
// (a panic, deadlock, leak, ...), with a model of the path condition.
func (p *Path) violationNow(label, msg string, pos token.Pos) {
	if p.following() {
		return
	}
	p.obligations++
	res, model, note := p.sol.Check(nil, p.inputTerms())
	switch res {
	case resSat:
		kf := ""
		if p.ghost != nil {
			if s, ok := p.ghost["known:"+label].(Str); ok {
				kf = s.s
			}
		}
		p.violations = append(p.violations, p.mkViolation(label, kf, msg, pos, model))
	case resUnsat:
		p.discharged++ // path was infeasible after all
	default:
		p.undischarged = append(p.undischarged, label+": "+note)
	}
}

func sortedKeys[V any](m map[string]V) []string {
	ks := make([]string, 0, len(m))
	for k := range m {
		ks = append(ks, k)
	}
	sort.Strings(ks)
	return ks
}
