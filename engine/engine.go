package main

import (
	"fmt"
	"go/ast"
	"go/types"
	"os"
	"regexp"
	"sort"
	"strings"
	"sync"
	"sync/atomic"
	"time"

	"golang.org/x/tools/go/packages"
	"golang.org/x/tools/go/ssa"
	"golang.org/x/tools/go/ssa/ssautil"
)

const modPath = "github.com/fullstorydev/grpchan"
const apiPkg = modPath + "/internal/zzverif"

type Config struct {
	Preempt          int
	MaxSteps         int
	Unwind           int
	MaxDepth         int
	MaxConcretize    int
	AllocCap         int
	MaxConcreteAlloc int
	MapPermMax       int
	MapVariants      int
	MapOrderBudget   int
	PreemptAtLocks   bool
	DelayBound       int
	CrossAsserts     string
	TrackLib         bool
	Workers          int
	TimeoutMs        int
	Solvers          []string
	Cross            string
	MaxPaths         int
	Params           map[string]int
	Race             bool
}

func defaultConfig() Config {
	return Config{Preempt: 2, MaxSteps: 2000000, Unwind: 4096, MaxDepth: 200, MaxConcretize: 300,
		AllocCap: 16, MaxConcreteAlloc: 1 << 20, MapPermMax: 3, MapVariants: 2, MapOrderBudget: 2, DelayBound: -1, CrossAsserts: "z3-new", Workers: 16,
		TimeoutMs: 10000, Solvers: []string{"z3", "cvc5-int", "cvc5"}, MaxPaths: 2000000,
		Params: map[string]int{}}
}

type workItem struct {
	harness *ssa.Function
	prefix  []decision
	model   map[string]uint64 // a model of the prefix's path condition, if known
}

type Engine struct {
	cfg       Config
	prog      *ssa.Program
	pkgs      []*packages.Package
	scratch   string
	redirects map[string]*ssa.Function
	intr      map[string]intrinsicFn
	intrCache sync.Map // *ssa.Function -> intrinsicFn or nil marker
	harnessFn sync.Map
	hcfg      map[string]*Config
	initBlocks map[*ssa.BasicBlock][]ssa.Instruction
	sampleSeen int

	runtimeErrorType types.Type
	errorStringPtr   types.Type
	pbFile           map[*ssa.Function]bool

	mu      sync.Mutex
	queue   []workItem
	pending int
	cond    *sync.Cond

	res Results
}

type HarnessStats struct {
	Paths        map[string]int
	Steps        int64
	Obligations  int
	Discharged   int
	Trivial      int
	Undischarged []string
	Reach        map[string]int
	Notes        map[string]int
	MaxPreempt   int
	MaxTrace     int
}

type Results struct {
	PerHarness  map[string]*HarnessStats
	Violations  []Violation
	FuncsRun    map[string]bool
	Samples     []map[string]interface{}
	Unsupported map[string]int
	Solver      map[string]*solverStats
	CrossN      int
	CrossDis    int
	ObsSamples  []obsSample
	ForkSites   map[string]int
}

type obsSample struct {
	Harness string
	Inputs  []inputVar
	Model   map[string]uint64
	Choices map[string]int
	Log     []string
	Sched   []schedStep
	Gors    int // non-environment goroutines
}

func (e *Engine) inRepo(fn *ssa.Function) bool {
	if fn.Pkg == nil {
		if fn.Parent() != nil {
			return e.inRepo(fn.Parent())
		}
		// synthetic wrapper: attribute to receiver's package if any
		if o := fn.Object(); o != nil && o.Pkg() != nil {
			return strings.HasPrefix(o.Pkg().Path(), modPath) && !strings.HasPrefix(o.Pkg().Path(), apiPkg)
		}
		return false
	}
	pth := fn.Pkg.Pkg.Path()
	return strings.HasPrefix(pth, modPath) && !strings.HasPrefix(pth, apiPkg)
}

// isHarnessFn reports whether fn is defined in a harness file (zz_verif_*.go).
func (e *Engine) isHarnessFn(fn *ssa.Function) bool {
	for fn.Parent() != nil {
		fn = fn.Parent()
	}
	if v, ok := e.harnessFn.Load(fn); ok {
		return v.(bool)
	}
	f := e.prog.Fset.File(fn.Pos())
	r := f != nil && strings.Contains(f.Name(), "zz_verif_")
	e.harnessFn.Store(fn, r)
	return r
}

func (e *Engine) push(h *ssa.Function, prefix []decision, model map[string]uint64) {
	e.mu.Lock()
	e.queue = append(e.queue, workItem{h, prefix, model})
	e.mu.Unlock()
	e.cond.Signal()
}

var modelDirective = regexp.MustCompile(`^//verif:model\s+(\S+)`)

func loadProgram(dir string, patterns []string) (*ssa.Program, []*packages.Package, error) {
	cfg := &packages.Config{
		Mode:       packages.LoadAllSyntax,
		Dir:        dir,
		BuildFlags: []string{"-tags=verif"},
		Env:        append(os.Environ(), "GOFLAGS=-mod=mod", "GOPROXY=off", "GOSUMDB=off", "GOTOOLCHAIN=local"),
	}
	pkgs, err := packages.Load(cfg, patterns...)
	if err != nil {
		return nil, nil, err
	}
	var errs []string
	packages.Visit(pkgs, nil, func(p *packages.Package) {
		for _, e := range p.Errors {
			errs = append(errs, e.Error())
		}
	})
	if len(errs) > 0 {
		return nil, nil, fmt.Errorf("package errors:\n%s", strings.Join(errs, "\n"))
	}
	prog, _ := ssautil.AllPackages(pkgs, ssa.InstantiateGenerics)
	prog.Build()
	return prog, pkgs, nil
}

func newEngine(cfg Config, scratch string, patterns []string) (*Engine, error) {
	t0 := time.Now()
	prog, pkgs, err := loadProgram(scratch, patterns)
	if err != nil {
		return nil, err
	}
	e := &Engine{cfg: cfg, prog: prog, pkgs: pkgs, scratch: scratch,
		redirects: map[string]*ssa.Function{}, pbFile: map[*ssa.Function]bool{}}
	e.cond = sync.NewCond(&e.mu)
	e.intr = makeIntrinsics()
	if rt := prog.ImportedPackage("runtime"); rt != nil {
		e.runtimeErrorType = rt.Type("errorString").Object().Type()
	}
	if ep := prog.ImportedPackage("errors"); ep != nil {
		e.errorStringPtr = types.NewPointer(ep.Type("errorString").Object().Type())
	}
	// model redirects: functions carrying a "//verif:model <full name>" directive
	packages.Visit(pkgs, nil, func(p *packages.Package) {
		if !strings.HasPrefix(p.PkgPath, modPath) {
			return
		}
		sp := prog.Package(p.Types)
		if sp == nil {
			return
		}
		for _, f := range p.Syntax {
			for _, d := range f.Decls {
				fd, ok := d.(*ast.FuncDecl)
				if !ok || fd.Doc == nil || fd.Recv != nil {
					continue
				}
				for _, c := range fd.Doc.List {
					if m := modelDirective.FindStringSubmatch(c.Text); m != nil {
						if fn := sp.Func(fd.Name.Name); fn != nil {
							e.redirects[m[1]] = fn
						}
					}
				}
			}
		}
	})
	e.prepareInitSkips()
	e.res = Results{PerHarness: map[string]*HarnessStats{}, FuncsRun: map[string]bool{},
		Unsupported: map[string]int{}, Solver: map[string]*solverStats{}}
	fmt.Fprintf(os.Stderr, "gosym: loaded and built SSA in %.1fs (%d redirects)\n", time.Since(t0).Seconds(), len(e.redirects))
	return e, nil
}

// prepareInitSkips precomputes, for the package initialisers of in-module packages,
// instruction lists without the element stores of large array literals (the
// generated protobuf raw descriptors: thousands of byte stores per path that
// nothing modelled ever reads). The arrays are still allocated, zero-filled.
func (e *Engine) prepareInitSkips() {
	e.initBlocks = map[*ssa.BasicBlock][]ssa.Instruction{}
	for _, pkg := range e.prog.AllPackages() {
		if !strings.HasPrefix(pkg.Pkg.Path(), modPath) {
			continue
		}
		fn := pkg.Func("init")
		if fn == nil {
			continue
		}
		big := map[ssa.Value]bool{}
		for _, b := range fn.Blocks {
			for _, in := range b.Instrs {
				if a, ok := in.(*ssa.Alloc); ok && a.Heap {
					if at, ok := deref(a.Type()).Underlying().(*types.Array); ok && at.Len() > 64 {
						if bt, ok := at.Elem().Underlying().(*types.Basic); ok && bt.Kind() == types.Uint8 {
							big[a] = true
						}
					}
				}
			}
		}
		if len(big) == 0 {
			continue
		}
		skipAddr := map[ssa.Value]bool{}
		for _, b := range fn.Blocks {
			var keep []ssa.Instruction
			changed := false
			for _, in := range b.Instrs {
				if ia, ok := in.(*ssa.IndexAddr); ok && big[ia.X] {
					skipAddr[ia] = true
					changed = true
					continue
				}
				if st, ok := in.(*ssa.Store); ok && skipAddr[st.Addr] {
					changed = true
					continue
				}
				keep = append(keep, in)
			}
			if changed {
				e.initBlocks[b] = keep
			}
		}
	}
}

func (e *Engine) findFunc(pkgPath, name string) *ssa.Function {
	for _, p := range e.prog.AllPackages() {
		if p.Pkg.Path() == pkgPath {
			return p.Func(name)
		}
	}
	return nil
}

// ---- exploration -----------------------------------------------------------

func (e *Engine) explore(harnesses []*ssa.Function) {
	for _, h := range harnesses {
		e.res.PerHarness[h.Name()] = &HarnessStats{Paths: map[string]int{}, Reach: map[string]int{}, Notes: map[string]int{}}
		e.queue = append(e.queue, workItem{h, nil, nil})
	}
	var wg sync.WaitGroup
	nPaths := 0
	stopProgress := make(chan struct{})
	go func() {
		tk := time.NewTicker(10 * time.Second)
		defer tk.Stop()
		t0 := time.Now()
		for {
			select {
			case <-stopProgress:
				return
			case <-tk.C:
				e.mu.Lock()
				fmt.Fprintf(os.Stderr, "gosym: %.0fs paths-started=%d queued=%d running=%d violations=%d queries=%d\n", time.Since(t0).Seconds(), nPaths, len(e.queue), e.pending, len(e.res.Violations), atomic.LoadInt64(&totalQueries))
				e.mu.Unlock()
			}
		}
	}()
	defer close(stopProgress)
	for w := 0; w < e.cfg.Workers; w++ {
		wg.Add(1)
		go func(w int) {
			defer wg.Done()
			sol := NewSolver(e.cfg.Solvers, e.cfg.TimeoutMs, e.cfg.Cross)
			defer func() {
				e.mu.Lock()
				for k, st := range sol.Stats() {
					g := e.res.Solver[k]
					if g == nil {
						g = &solverStats{}
						e.res.Solver[k] = g
					}
					g.Queries += st.Queries
					g.Sat += st.Sat
					g.Unsat += st.Unsat
					g.Unknown += st.Unknown
					g.Seconds += st.Seconds
				}
				e.res.CrossN += sol.crossN
				e.res.CrossDis += sol.crossDis
				e.mu.Unlock()
				sol.Close()
			}()
			for {
				e.mu.Lock()
				for len(e.queue) == 0 && e.pending > 0 {
					e.cond.Wait()
				}
				if len(e.queue) == 0 {
					e.mu.Unlock()
					e.cond.Broadcast()
					return
				}
				// depth-first: take the most recent item
				it := e.queue[len(e.queue)-1]
				e.queue = e.queue[:len(e.queue)-1]
				e.pending++
				nPaths++
				over := nPaths > e.cfg.MaxPaths
				e.mu.Unlock()
				if over {
					e.mu.Lock()
					e.res.PerHarness[it.harness.Name()].Notes["path budget exceeded: exploration truncated"]++
					e.pending--
					e.mu.Unlock()
					e.cond.Broadcast()
					continue
				}
				p := e.runPath(sol, it)
				e.collect(p)
				e.mu.Lock()
				e.pending--
				e.mu.Unlock()
				e.cond.Broadcast()
			}
		}(w)
	}
	wg.Wait()
}

func (e *Engine) runPath(sol *Solver, it workItem) *Path {
	p := &Path{eng: e, cfg: e.cfgFor(it.harness.Name()), tc: NewTermCtx(), sol: sol, harness: it.harness, prefix: it.prefix,
		globals: map[*ssa.Global]*value{}, initDone: map[*ssa.Package]bool{},
		inputIdx: map[string]int{}, choices: map[string]int{}, reach: map[string]bool{},
		notes: map[string]int{}, funcsRun: map[*ssa.Function]bool{}, ghost: map[string]value{},
		mutexes: map[*value]*mutexState{}, wgs: map[*value]*wgState{}, onces: map[*value]*onceState{}}
	sol.Reset()
	p.cacheModel(it.model)
	p.sched = newSched(p)
	p.sched.spawn("main", false, func(g *gor) {
		root := &frame{g: g, p: p}
		g.top = root
		// initialise the harness's package (and, transitively, in-repo imports)
		p.lenient = true
		if it.harness.Pkg != nil {
			p.initPackage(root, it.harness.Pkg)
		}
		p.lenient = false
		p.call(root, it.harness.Pos(), it.harness, nil)
	})
	st, msg := p.sched.run()
	p.status, p.statusMsg = st, msg
	if e.sampleWanted(p) {
		p.makeSample()
	}
	return p
}

// cfgFor returns the configuration of a harness (property-wide settings plus the
// harness's own overrides).
func (e *Engine) cfgFor(h string) *Config {
	if c, ok := e.hcfg[h]; ok {
		return c
	}
	return &e.cfg
}

// sampleWanted: completed paths are sampled for translator validation (a model of
// the path condition is fetched and the observation log evaluated under it): the
// first 64 paths, then every 16th, up to 1024 samples.
func (e *Engine) sampleWanted(p *Path) bool {
	e.mu.Lock()
	defer e.mu.Unlock()
	e.sampleSeen++
	if len(e.res.ObsSamples) >= 1024 {
		return false
	}
	return e.sampleSeen <= 64 || e.sampleSeen%16 == 0
}

func (e *Engine) collect(p *Path) {
	e.mu.Lock()
	defer e.mu.Unlock()
	hs := e.res.PerHarness[p.harness.Name()]
	hs.Paths[p.status.String()]++
	hs.Steps += int64(p.steps)
	hs.Obligations += p.obligations
	hs.Discharged += p.discharged
	hs.Trivial += p.trivial
	hs.Undischarged = append(hs.Undischarged, p.undischarged...)
	for k := range p.reach {
		hs.Reach[k]++
	}
	for k, v := range p.notes {
		hs.Notes[k] += v
	}
	if p.sched.preempt > hs.MaxPreempt {
		hs.MaxPreempt = p.sched.preempt
	}
	if len(p.trace) > hs.MaxTrace {
		hs.MaxTrace = len(p.trace)
	}
	switch p.status {
	case stUnsupported:
		e.res.Unsupported[p.statusMsg]++
	case stUnwind:
		hs.Notes["UNWIND: "+p.statusMsg]++
	case stCut:
		hs.Notes["cut: "+p.statusMsg]++
	}
	for k, v := range p.forkLog {
		if e.res.ForkSites == nil {
			e.res.ForkSites = map[string]int{}
		}
		e.res.ForkSites[k] += v
	}
	e.res.Violations = append(e.res.Violations, p.violations...)
	for fn := range p.funcsRun {
		e.res.FuncsRun[fn.String()] = true
	}
	if p.status == stComplete && p.sample != nil {
		e.res.ObsSamples = append(e.res.ObsSamples, *p.sample)
	}
}

func sortedSet(m map[string]bool) []string {
	r := make([]string, 0, len(m))
	for k := range m {
		r = append(r, k)
	}
	sort.Strings(r)
	return r
}

// ---- globals and package initialisation ---------------------------------------

func (p *Path) globalAddr(g *ssa.Global) *value {
	if a, ok := p.globals[g]; ok {
		return a
	}
	cell := new(value)
	p.globals[g] = cell
	t := deref(g.Type())
	if v, ok := p.externGlobalInit(g, t); ok {
		*cell = v
	} else {
		*cell = p.zero(t)
	}
	return cell
}

func (p *Path) newErrorString(msg string) value {
	cell := new(value)
	*cell = structure{Str{s: msg}}
	return iface{t: p.eng.errorStringPtr, v: cell}
}

var externErrorGlobals = map[string]string{
	"io.EOF":                   "EOF",
	"io.ErrUnexpectedEOF":      "unexpected EOF",
	"io.ErrClosedPipe":         "io: read/write on closed pipe",
	"io.ErrShortBuffer":        "short buffer",
	"io.ErrShortWrite":         "short write",
	"io.ErrNoProgress":         "multiple Read calls return no data or error",
	"io.errInvalidWrite":       "invalid write result",
	"context.Canceled":         "context canceled",
	"strconv.ErrRange":         "value out of range",
	"strconv.ErrSyntax":        "invalid syntax",
	"net/http.ErrBodyNotAllowed": "http: request method or response status code does not allow body",
	"errors.ErrUnsupported":    "unsupported operation",
}

func (p *Path) externGlobalInit(g *ssa.Global, t types.Type) (value, bool) {
	if g.Pkg == nil {
		return nil, false
	}
	path := g.Pkg.Pkg.Path()
	if strings.HasPrefix(path, modPath) {
		return nil, false
	}
	q := path + "." + g.Name()
	if msg, ok := externErrorGlobals[q]; ok {
		return p.newErrorString(msg), true
	}
	switch q {
	case "context.DeadlineExceeded":
		dt := g.Pkg.Type("deadlineExceededError").Object().Type()
		return iface{t: dt, v: structure{}}, true
	case "io.Discard":
		dt := g.Pkg.Type("discard").Object().Type()
		return iface{t: dt, v: structure{}}, true
	case "io/ioutil.Discard":
		dt := p.eng.prog.ImportedPackage("io").Type("discard").Object().Type()
		return iface{t: dt, v: structure{}}, true
	case "encoding/base64.URLEncoding", "encoding/base64.RawURLEncoding", "encoding/base64.StdEncoding", "encoding/base64.RawStdEncoding":
		cell := new(value)
		*cell = p.zero(deref(t))
		p.ghost["b64:"+fmt.Sprintf("%p", cell)] = Str{s: g.Name()}
		return cell, true
	}
	if strings.HasPrefix(g.Name(), "init$guard") {
		return nil, false
	}
	p.note("extern-global-zero:" + q)
	return nil, false
}

// initPackage runs the synthesized init function of an in-repo package.
func (p *Path) initPackage(fr *frame, pkg *ssa.Package) {
	if p.initDone[pkg] {
		return
	}
	p.initDone[pkg] = true
	if fn := pkg.Func("init"); fn != nil {
		p.callSSA(fr, fn.Pos(), fn, nil, nil)
	}
}
