package main

import (
	"go/types"
)

// smap is a Go map with possibly symbolic keys: an ordered entry list. Lookups
// compare the key with each present key; a symbolic comparison forks the path.
// Iteration order is an exploration choice (Go randomises it).
type smap struct {
	kt, vt types.Type
	ents   []*ment
}

type ment struct {
	k, v value
	dead bool
}

func (m *smap) find(p *Path, k value) *ment {
	for _, e := range m.ents {
		if p.branch(p.equals(m.kt, k, e.k)) {
			return e
		}
	}
	return nil
}

func (m *smap) lookup(p *Path, k value) (value, bool) {
	if e := m.find(p, k); e != nil {
		return e.v, true
	}
	return nil, false
}

func (m *smap) insert(p *Path, k, v value) {
	if e := m.find(p, k); e != nil {
		e.v = copyVal(v)
		return
	}
	m.ents = append(m.ents, &ment{k: copyVal(k), v: copyVal(v)})
}

func (m *smap) delete(p *Path, k value) {
	for i, e := range m.ents {
		if p.branch(p.equals(m.kt, k, e.k)) {
			e.dead = true
			m.ents = append(append([]*ment{}, m.ents[:i]...), m.ents[i+1:]...)
			return
		}
	}
}

type mapIter struct {
	order []*ment
	pos   int
}

// newMapIter snapshots the entries in an order chosen by exploration: every
// permutation for maps of up to MapPermMax entries, otherwise the rotations of
// the insertion order and of its reverse (a stated bound).
func (p *Path) newMapIter(m *smap) iter { return p.newMapIterIn(m, true) }

// newMapIterIn: the order is explored only if explore is set and the path's budget
// of order-exploring iterations is not used up; otherwise insertion order.
func (p *Path) newMapIterIn(m *smap, explore bool) iter {
	if m == nil {
		return &mapIter{}
	}
	n := len(m.ents)
	order := make([]*ment, 0, n)
	if n >= 2 && explore {
		if p.mapOrderUsed >= p.cfg.MapOrderBudget {
			explore = false
		} else {
			p.mapOrderUsed++
		}
	}
	if !explore || n < 2 {
		order = append(order, m.ents...)
		return &mapIter{order: order}
	}
	if n <= p.cfg.MapPermMax {
		rest := append([]*ment{}, m.ents...)
		for len(rest) > 0 {
			i := p.choose(len(rest))
			order = append(order, rest[i])
			rest = append(rest[:i:i], rest[i+1:]...)
		}
	} else {
		variant := 0
		if p.cfg.MapVariants > 1 {
			nv := p.cfg.MapVariants
			if nv > 2*n {
				nv = 2 * n
			}
			variant = p.choose(nv)
		}
		rot := variant / 2
		rev := variant%2 == 1
		for i := 0; i < n; i++ {
			j := (i + rot) % n
			if rev {
				j = n - 1 - j
			}
			order = append(order, m.ents[j])
		}
	}
	return &mapIter{order: order}
}

func (it *mapIter) next(fr *frame) tuple {
	tc := fr.p.tc
	for it.pos < len(it.order) {
		e := it.order[it.pos]
		it.pos++
		if e.dead {
			continue
		}
		return tuple{tc.True(), copyVal(e.k), copyVal(e.v)}
	}
	return tuple{tc.False(), nil, nil}
}
