package main

// Symbolic interpreter for go/ssa, structured after x/tools/go/ssa/interp:
// frames on the Go stack, one Go goroutine per target goroutine (see sched.go),
// values as in value.go. Symbolic conditions fork through Path.branch.

import (
	"fmt"
	"go/constant"
	"go/token"
	"go/types"
	"strings"

	"golang.org/x/tools/go/ssa"
)

type deferred struct {
	fn    value
	args  []value
	instr *ssa.Defer
	tail  *deferred
}

type frame struct {
	g                *gor
	p                *Path
	caller           *frame
	fn               *ssa.Function
	block, prevBlock *ssa.BasicBlock
	env              map[ssa.Value]value
	locals           []value
	defers           *deferred
	result           value
	panicking        bool
	panic            interface{}
	phitemps         []value
	visits           map[*ssa.BasicBlock]int
	callpos          token.Pos
	curInstr         ssa.Instruction
}

type continuation int

const (
	kNext continuation = iota
	kReturn
	kJump
)

func (fr *frame) get(key ssa.Value) value {
	switch key := key.(type) {
	case nil:
		return nil
	case *ssa.Function:
		return key
	case *ssa.Builtin:
		return key
	case *ssa.Const:
		return fr.p.constValue(key)
	case *ssa.Global:
		return fr.p.globalAddr(key)
	}
	if r, ok := fr.env[key]; ok {
		return r
	}
	panic(fmt.Sprintf("get: no value for %T: %v in %v", key, key.Name(), fr.fn))
}

func (p *Path) constValue(c *ssa.Const) value {
	if c.Value == nil {
		return p.zero(c.Type())
	}
	t := c.Type().Underlying()
	if b, ok := t.(*types.Basic); ok {
		switch {
		case b.Info()&types.IsBoolean != 0:
			return p.tc.Bool(constant.BoolVal(c.Value))
		case b.Info()&types.IsString != 0:
			if c.Value.Kind() == constant.String {
				return Str{s: constant.StringVal(c.Value)}
			}
			// string(rune) constant
			return Str{s: string(rune(c.Int64()))}
		case b.Info()&types.IsInteger != 0:
			w, signed, _ := intInfo(b)
			if signed {
				return p.tc.BV(w, uint64(c.Int64()))
			}
			return p.tc.BV(w, c.Uint64())
		case b.Info()&types.IsFloat != 0:
			return c.Float64()
		case b.Kind() == types.UnsafePointer:
			return (*value)(nil)
		}
	}
	if _, ok := t.(*types.Interface); ok && c.Value == nil {
		return iface{}
	}
	panic(unsupported{fmt.Sprintf("constValue: %v of type %v", c, c.Type())})
}

func (fr *frame) runDefer(d *deferred) {
	var ok bool
	defer func() {
		if !ok {
			r := recover()
			if isControl(r) {
				panic(r)
			}
			fr.panicking = true
			fr.panic = r
		}
	}()
	fr.p.call(fr, d.instr.Pos(), d.fn, d.args)
	ok = true
}

func isControl(r interface{}) bool {
	switch r.(type) {
	case abortPath, pathEnd, unsupported:
		return true
	}
	return false
}

func (fr *frame) runDefers() {
	for d := fr.defers; d != nil; d = d.tail {
		fr.runDefer(d)
	}
	fr.defers = nil
	if fr.panicking {
		panic(fr.panic)
	}
}

func (p *Path) lookupMethod(typ types.Type, meth *types.Func) *ssa.Function {
	return p.eng.prog.LookupMethod(typ, meth.Pkg(), meth.Name())
}

func (fr *frame) visitInstr(instr ssa.Instruction) continuation {
	p := fr.p
	p.steps++
	p.curFr = fr
	if p.steps > p.cfg.MaxSteps {
		p.end(stUnwind, fmt.Sprintf("step budget %d exceeded in %v", p.cfg.MaxSteps, fr.fn))
	}
	switch instr := instr.(type) {
	case *ssa.DebugRef:

	case *ssa.UnOp:
		fr.env[instr] = fr.unop(instr, fr.get(instr.X))

	case *ssa.BinOp:
		fr.env[instr] = fr.binop(instr.Op, instr.X.Type(), fr.get(instr.X), fr.get(instr.Y), instr.Pos())

	case *ssa.Call:
		fn, args := fr.prepareCall(&instr.Call)
		if p.lenient && fr.fn.Synthetic == "package initializer" {
			// package initialisation runs leniently: an initialiser that needs the
			// protobuf runtime or other unmodelled machinery is skipped (its
			// variables stay zero) and the fact is noted
			fr.env[instr] = fr.lenientCall(instr, fn, args)
			break
		}
		fr.env[instr] = p.call(fr, instr.Pos(), fn, args)

	case *ssa.ChangeInterface:
		fr.env[instr] = fr.get(instr.X)

	case *ssa.ChangeType:
		fr.env[instr] = fr.get(instr.X)

	case *ssa.Convert:
		fr.env[instr] = fr.conv(instr.Type(), instr.X.Type(), fr.get(instr.X))

	case *ssa.MakeInterface:
		fr.env[instr] = iface{t: instr.X.Type(), v: copyVal(fr.get(instr.X))}

	case *ssa.Extract:
		fr.env[instr] = fr.get(instr.Tuple).(tuple)[instr.Index]

	case *ssa.Slice:
		fr.env[instr] = fr.sliceOp(instr, fr.get(instr.X), fr.get(instr.Low), fr.get(instr.High), fr.get(instr.Max))

	case *ssa.Return:
		switch len(instr.Results) {
		case 0:
		case 1:
			fr.result = fr.get(instr.Results[0])
		default:
			var res []value
			for _, r := range instr.Results {
				res = append(res, fr.get(r))
			}
			fr.result = tuple(res)
		}
		fr.block = nil
		return kReturn

	case *ssa.RunDefers:
		fr.runDefers()

	case *ssa.Panic:
		panic(targetPanic{fr.get(instr.X), instr.Pos(), fr.stack()})

	case *ssa.Send:
		ch := fr.get(instr.Chan).(*schan)
		fr.g.selectOp([]selCase{{ch: ch, send: true, val: fr.get(instr.X)}}, false, "send", instr.Pos())

	case *ssa.Store:
		addr := fr.get(instr.Addr).(*value)
		fr.p.access(fr, addr, true, instr.Pos())
		store(addr, fr.get(instr.Val))

	case *ssa.If:
		succ := 1
		if p.branch(fr.get(instr.Cond).(*Term)) {
			succ = 0
		}
		fr.prevBlock, fr.block = fr.block, fr.block.Succs[succ]
		return kJump

	case *ssa.Jump:
		fr.prevBlock, fr.block = fr.block, fr.block.Succs[0]
		return kJump

	case *ssa.Defer:
		fn, args := fr.prepareCall(&instr.Call)
		fr.defers = &deferred{fn: fn, args: args, instr: instr, tail: fr.defers}

	case *ssa.Go:
		fn, args := fr.prepareCall(&instr.Call)
		pos := instr.Pos()
		name := fmt.Sprintf("go@%s", p.posStr(pos))
		p.sched.spawn(name, false, func(g *gor) {
			p.callIn(g, pos, fn, args)
		})

	case *ssa.MakeChan:
		sz := fr.get(instr.Size).(*Term)
		n := p.concretize(sz, true, 0, 16)
		fr.env[instr] = p.sched.newChan(instr.Type().Underlying().(*types.Chan).Elem(), int(n))

	case *ssa.Alloc:
		var addr *value
		if instr.Heap {
			addr = new(value)
			fr.env[instr] = addr
		} else {
			addr = fr.env[instr].(*value)
		}
		*addr = p.zero(deref(instr.Type()))

	case *ssa.MakeSlice:
		fr.env[instr] = fr.makeSlice(instr)

	case *ssa.MakeMap:
		mt := instr.Type().Underlying().(*types.Map)
		fr.env[instr] = &smap{kt: mt.Key(), vt: mt.Elem()}

	case *ssa.Range:
		fr.env[instr] = fr.rangeIter(fr.get(instr.X), instr.X.Type())

	case *ssa.Next:
		fr.env[instr] = fr.get(instr.Iter).(iter).next(fr)

	case *ssa.FieldAddr:
		ptr := fr.get(instr.X).(*value)
		if ptr == nil {
			panic(runtimePanic{"invalid memory address or nil pointer dereference"})
		}
		fr.env[instr] = &(*ptr).(structure)[instr.Field]

	case *ssa.Field:
		fr.env[instr] = fr.get(instr.X).(structure)[instr.Field]

	case *ssa.IndexAddr:
		x := fr.get(instr.X)
		idx := fr.get(instr.Index).(*Term)
		_, signed, _ := intInfo(instr.Index.Type())
		switch x := x.(type) {
		case []value:
			i := fr.index(idx, signed, len(x))
			fr.env[instr] = &x[i]
		case *value:
			if x == nil {
				panic(runtimePanic{"invalid memory address or nil pointer dereference"})
			}
			a := (*x).(array)
			i := fr.index(idx, signed, len(a))
			fr.env[instr] = &a[i]
		default:
			panic(fmt.Sprintf("unexpected x type in IndexAddr: %T", x))
		}

	case *ssa.Index:
		x := fr.get(instr.X)
		idx := fr.get(instr.Index).(*Term)
		_, signed, _ := intInfo(instr.Index.Type())
		switch x := x.(type) {
		case array:
			fr.env[instr] = x[fr.index(idx, signed, len(x))]
		case Str:
			i := fr.index(idx, signed, x.Len())
			fr.env[instr] = p.bytesOf(x)[i]
		default:
			panic(fmt.Sprintf("unexpected x type in Index: %T", x))
		}

	case *ssa.Lookup:
		fr.env[instr] = fr.lookup(instr, fr.get(instr.X), fr.get(instr.Index))

	case *ssa.MapUpdate:
		m := fr.get(instr.Map).(*smap)
		if m == nil {
			panic(runtimePanic{"assignment to entry in nil map"})
		}
		m.insert(fr.p, fr.get(instr.Key), fr.get(instr.Value))

	case *ssa.TypeAssert:
		fr.env[instr] = fr.typeAssert(instr, fr.get(instr.X).(iface))

	case *ssa.MakeClosure:
		var bindings []value
		for _, b := range instr.Bindings {
			bindings = append(bindings, fr.get(b))
		}
		fr.env[instr] = &closure{instr.Fn.(*ssa.Function), bindings}

	case *ssa.Select:
		var cases []selCase
		for _, st := range instr.States {
			c := selCase{ch: fr.get(st.Chan).(*schan), send: st.Dir == types.SendOnly}
			if st.Send != nil {
				c.val = fr.get(st.Send)
			}
			cases = append(cases, c)
		}
		chosen, recv, recvOk := fr.g.selectOp(cases, !instr.Blocking, "select", instr.Pos())
		r := tuple{p.tc.BV(64, uint64(int64(chosen))), p.tc.Bool(recvOk)}
		for i, st := range instr.States {
			if st.Dir == types.RecvOnly {
				var v value
				if i == chosen && recvOk {
					v = recv
				} else {
					v = p.zero(st.Chan.Type().Underlying().(*types.Chan).Elem())
				}
				r = append(r, v)
			}
		}
		fr.env[instr] = r

	case *ssa.SliceToArrayPointer:
		panic(unsupported{"SliceToArrayPointer"})

	default:
		panic(unsupported{fmt.Sprintf("instruction %T", instr)})
	}
	return kNext
}

func (fr *frame) lenientCall(instr *ssa.Call, fn value, args []value) (res value) {
	p := fr.p
	defer func() {
		if r := recover(); r != nil {
			switch r.(type) {
			case targetPanic, unsupported, runtimePanic:
				p.note(fmt.Sprintf("package initialiser skipped: %v", instr.Call.Value))
				if instr.Type() != nil {
					if tup, ok := instr.Type().(*types.Tuple); ok && tup.Len() == 0 {
						res = nil
					} else {
						res = p.zero(instr.Type())
					}
				}
			default:
				panic(r)
			}
		}
	}()
	return p.call(fr, instr.Pos(), fn, args)
}

// index checks 0 <= idx < n (forking / reporting the panic) and returns a
// concrete index.
func (fr *frame) index(idx *Term, signed bool, n int) int {
	p := fr.p
	if idx.IsConst() {
		var i int64
		if signed {
			i = sext64(idx.val, idx.w)
		} else {
			i = int64(idx.val)
			if i < 0 {
				i = int64(^uint64(0) >> 1)
			}
		}
		if i < 0 || i >= int64(n) {
			panic(runtimePanic{fmt.Sprintf("index out of range [%d] with length %d", i, n)})
		}
		return int(i)
	}
	x := idx
	if x.w < 64 {
		if signed {
			x = p.tc.SExt(x, 64)
		} else {
			x = p.tc.ZExt(x, 64)
		}
	}
	inRange := p.tc.Cmp(OpULt, x, p.tc.BV(64, uint64(n)))
	if !p.branch(inRange) {
		panic(runtimePanic{fmt.Sprintf("index out of range [symbolic] with length %d", n)})
	}
	return int(p.concretize(x, false, 0, int64(n-1)))
}

func (fr *frame) prepareCall(call *ssa.CallCommon) (fn value, args []value) {
	v := fr.get(call.Value)
	if call.Method == nil {
		fn = v
	} else {
		recv := v.(iface)
		if recv.t == nil {
			panic(runtimePanic{"invalid memory address or nil pointer dereference (method call on nil interface)"})
		}
		if f := fr.p.fakeMethod(recv, call.Method); f != nil {
			fn = f
		} else if f := fr.p.lookupMethod(recv.t, call.Method); f == nil {
			panic(fmt.Sprintf("method set for dynamic type %v does not contain %s", recv.t, call.Method))
		} else {
			fn = f
		}
		args = append(args, recv.v)
	}
	for _, arg := range call.Args {
		args = append(args, fr.get(arg))
	}
	return
}

// callIn runs fn as the body of goroutine g.
func (p *Path) callIn(g *gor, pos token.Pos, fn value, args []value) value {
	root := &frame{g: g, p: p}
	g.top = root
	return p.call(root, pos, fn, args)
}

func (p *Path) call(caller *frame, callpos token.Pos, fn value, args []value) value {
	switch fn := fn.(type) {
	case *ssa.Function:
		if fn == nil {
			panic(runtimePanic{"invalid memory address or nil pointer dereference (call of nil func)"})
		}
		return p.callSSA(caller, callpos, fn, args, nil)
	case *closure:
		if fn == nil {
			panic(runtimePanic{"invalid memory address or nil pointer dereference (call of nil func)"})
		}
		return p.callSSA(caller, callpos, fn.Fn, args, fn.Env)
	case *ssa.Builtin:
		return caller.callBuiltin(callpos, fn, args)
	case *nativeFunc:
		return fn.fn(caller, args)
	}
	panic(fmt.Sprintf("cannot call %T", fn))
}

func (p *Path) callSSA(caller *frame, callpos token.Pos, fn *ssa.Function, args []value, env []value) value {
	fr := &frame{g: caller.g, p: p, caller: caller, fn: fn, callpos: callpos}
	if fn.Parent() == nil {
		name := fn.String()
		if ext := p.eng.intrinsic(fn, name); ext != nil {
			return ext(fr, args)
		}
		if target := p.eng.redirects[name]; target != nil {
			return p.callSSA(caller, callpos, target, args, nil)
		}
	}
	if fn.Blocks == nil {
		if fn.Synthetic != "" && strings.Contains(fn.Synthetic, "generic") {
			panic(unsupported{"generic function body: " + fn.String()})
		}
		panic(unsupported{"no code for function: " + fn.String()})
	}
	if fn.TypeParams().Len() > 0 && len(fn.TypeArgs()) == 0 {
		panic(unsupported{"uninstantiated generic function: " + fn.String()})
	}
	if p.eng.inRepo(fn) {
		p.funcsRun[fn] = true
	} else if p.cfg.TrackLib {
		p.funcsRun[fn] = true
	}
	depth := 0
	for c := caller; c != nil; c = c.caller {
		depth++
	}
	if depth > p.cfg.MaxDepth {
		p.end(stUnwind, "call depth exceeded in "+fn.String())
	}
	fr.env = make(map[ssa.Value]value)
	fr.block = fn.Blocks[0]
	fr.locals = make([]value, len(fn.Locals))
	for i, l := range fn.Locals {
		fr.locals[i] = p.zero(deref(l.Type()))
		fr.env[l] = &fr.locals[i]
	}
	for i, pa := range fn.Params {
		fr.env[pa] = args[i]
	}
	for i, fv := range fn.FreeVars {
		fr.env[fv] = env[i]
	}
	for fr.block != nil {
		fr.runFrame()
	}
	return fr.result
}

func (fr *frame) runFrame() {
	defer func() {
		if fr.block == nil {
			return // normal return
		}
		r := recover()
		if isControl(r) {
			panic(r)
		}
		if rp, ok := r.(runtimePanic); ok {
			r = targetPanic{fr.p.runtimeErrorValue(rp.msg), fr.curPos(), fr.stack()}
		}
		if _, ok := r.(targetPanic); !ok {
			// interpreter bug: annotate and convert to unsupported so that the
			// exploration goes on and the reason is reported
			panic(unsupported{fmt.Sprintf("engine fault in %v: %v", fr.fn, r)})
		}
		fr.panicking = true
		fr.panic = r
		fr.runDefers()
		fr.block = fr.fn.Recover
	}()

	for {
		if fr.visits == nil {
			fr.visits = map[*ssa.BasicBlock]int{}
		}
		fr.visits[fr.block]++
		if fr.visits[fr.block] > fr.p.cfg.Unwind {
			fr.p.end(stUnwind, fmt.Sprintf("unwinding bound %d exceeded in %v block %d", fr.p.cfg.Unwind, fr.fn, fr.block.Index))
		}
		nonPhis := fr.executePhis()
		if fr.fn.Synthetic == "package initializer" {
			if f, ok := fr.p.eng.initBlocks[fr.block]; ok {
				nonPhis = f
			}
		}
		for _, instr := range nonPhis {
			fr.curInstr = instr
			if fr.visitInstr(instr) == kReturn {
				return
			}
		}
	}
}

func (fr *frame) stack() []string {
	var r []string
	for c := fr; c != nil && c.fn != nil; c = c.caller {
		r = append(r, fmt.Sprintf("%v @%s", c.fn, fr.p.posStr(c.curPos())))
		if len(r) > 30 {
			break
		}
	}
	return r
}

func (fr *frame) curPos() token.Pos {
	if fr.curInstr != nil {
		if p := fr.curInstr.Pos(); p != token.NoPos {
			return p
		}
	}
	for c := fr; c != nil; c = c.caller {
		if c.callpos != token.NoPos {
			return c.callpos
		}
	}
	return token.NoPos
}

func (fr *frame) executePhis() []ssa.Instruction {
	firstNonPhi := -1
	for i, instr := range fr.block.Instrs {
		if _, ok := instr.(*ssa.Phi); !ok {
			firstNonPhi = i
			break
		}
	}
	nonPhis := fr.block.Instrs[firstNonPhi:]
	if firstNonPhi > 0 {
		phis := fr.block.Instrs[:firstNonPhi]
		predIndex := -1
		for i, b := range fr.block.Preds {
			if b == fr.prevBlock {
				predIndex = i
				break
			}
		}
		fr.phitemps = fr.phitemps[:0]
		for _, phi := range phis {
			fr.phitemps = append(fr.phitemps, fr.get(phi.(*ssa.Phi).Edges[predIndex]))
		}
		for i, phi := range phis {
			fr.env[phi.(*ssa.Phi)] = fr.phitemps[i]
		}
	}
	return nonPhis
}

func (fr *frame) doRecover() value {
	caller := fr
	if caller != nil && !caller.panicking && caller.caller != nil && caller.caller.panicking {
		caller.caller.panicking = false
		pv := caller.caller.panic
		caller.caller.panic = nil
		switch pv := pv.(type) {
		case targetPanic:
			return pv.v
		default:
			panic(fmt.Sprintf("unexpected panic type %T in recover()", pv))
		}
	}
	return iface{}
}

// runtimeErrorValue builds the value of a Go run-time error (an error interface
// holding runtime.errorString-like data).
func (p *Path) runtimeErrorValue(msg string) value {
	return iface{t: p.eng.runtimeErrorType, v: Str{s: "runtime error: " + msg}}
}

func (p *Path) panicString(v value) string {
	if i, ok := v.(iface); ok {
		if i.t == p.eng.runtimeErrorType {
			return i.v.(Str).s
		}
		if s, ok := i.v.(Str); ok {
			if c, ok := s.Concrete(); ok {
				return c
			}
			return "<symbolic string>"
		}
		return fmt.Sprintf("%v %s", i.t, valStr(i.v))
	}
	return valStr(v)
}

func (p *Path) panicLabel(v value) string {
	s := p.panicString(v)
	if strings.HasPrefix(s, "runtime error: ") {
		s = strings.TrimPrefix(s, "runtime error: ")
		if i := strings.Index(s, " ["); i > 0 {
			s = s[:i]
		}
		if i := strings.Index(s, " ("); i > 0 {
			s = s[:i]
		}
	} else if len(s) > 40 {
		s = s[:40]
	}
	return "panic:" + strings.ReplaceAll(s, " ", "-")
}
