package main

// Schedule-pinned native replay: a mechanical source rewrite of the scratch copy
// that inserts replay points before the visible operations of grpchan and harness
// code. Under replay a controller (zzverif/sched.go) releases the goroutines in
// the order of the engine's counterexample trace and forces the recorded select
// case. Pinning only restricts scheduler and select nondeterminism: every pinned
// execution is a legal execution of the unmodified code.
//
//   go f(x)            ->  zzrt.Go("file:line", func() { f(x) })
//   select { ... }     ->  switch zzrt.Sel("file:line") { case i: comm_i; body_i ... default: select { ... } }
//   stmt with <-ch, ch <- v, close(), Lock/RLock/Wait, ctx.Err(), cancel()
//                      ->  zzrt.Point("file:line"); stmt

import (
	"fmt"
	"go/ast"
	"go/parser"
	"go/token"
	"os"
	"path/filepath"
	"sort"
	"strings"
)

type srcEdit struct {
	start, end int // byte offsets in the original source; start==end: insertion
	text       string
}

type instrumenter struct {
	fset *token.FileSet
	src  []byte
	rel  string // path relative to the module root
	file *token.File
}

func (in *instrumenter) site(pos token.Pos) string {
	return fmt.Sprintf("%s:%d", in.rel, in.fset.Position(pos).Line)
}

func (in *instrumenter) off(pos token.Pos) int { return in.file.Offset(pos) }

// render returns the source text of [start,end) with the rewrites of the nodes
// inside applied.
func (in *instrumenter) render(n ast.Node) string {
	return in.renderRange(n, in.off(n.Pos()), in.off(n.End()))
}

func (in *instrumenter) renderRange(root ast.Node, start, end int) string {
	var edits []srcEdit
	in.collect(root, &edits, true)
	sort.SliceStable(edits, func(i, j int) bool { return edits[i].start < edits[j].start })
	var sb strings.Builder
	pos := start
	for _, e := range edits {
		if e.start < pos || e.end > end {
			continue // nested inside an already replaced range, or outside
		}
		sb.Write(in.src[pos:e.start])
		sb.WriteString(e.text)
		pos = e.end
	}
	sb.Write(in.src[pos:end])
	return sb.String()
}

// visibleOp reports whether the statement (not descending into nested blocks or
// function literals) contains a visible operation.
func visibleOp(n ast.Node) bool {
	found := false
	ast.Inspect(n, func(x ast.Node) bool {
		if found {
			return false
		}
		switch x := x.(type) {
		case *ast.FuncLit, *ast.BlockStmt, *ast.SelectStmt, *ast.GoStmt:
			return x == n
		case *ast.SendStmt:
			found = true
		case *ast.UnaryExpr:
			if x.Op == token.ARROW {
				found = true
			}
		case *ast.CallExpr:
			switch f := x.Fun.(type) {
			case *ast.Ident:
				if f.Name == "close" || strings.Contains(strings.ToLower(f.Name), "cancel") {
					found = true
				}
			case *ast.SelectorExpr:
				nm := f.Sel.Name
				switch nm {
				case "Lock", "RLock", "Wait", "Err", "onDone", "CloseWithError", "Quiesce":
					found = true
				}
				if strings.Contains(strings.ToLower(nm), "cancel") {
					found = true
				}
				if id, ok := f.X.(*ast.Ident); ok && id.Name == "atomic" {
					found = true
				}
			}
		}
		return true
	})
	return found
}

// collect gathers the rewrites for the outermost rewritable nodes under root.
func (in *instrumenter) collect(root ast.Node, edits *[]srcEdit, skipRoot bool) {
	var visitList func(list []ast.Stmt)
	var visit func(n ast.Node)
	visitStmt := func(s ast.Stmt) {
		switch st := s.(type) {
		case *ast.GoStmt:
			call := in.render(st.Call)
			*edits = append(*edits, srcEdit{in.off(st.Pos()), in.off(st.End()),
				fmt.Sprintf("zzrt.Go(%q, func() { %s })", in.site(st.Pos()), call)})
			return
		case *ast.SelectStmt:
			*edits = append(*edits, srcEdit{in.off(st.Pos()), in.off(st.End()), in.rewriteSelect(st)})
			return
		case *ast.LabeledStmt:
			visit(st.Stmt)
			return
		}
		// statement with a visible operation at its own level: point before it
		switch st := s.(type) {
		case *ast.ExprStmt, *ast.AssignStmt, *ast.SendStmt, *ast.ReturnStmt, *ast.DeclStmt, *ast.IncDecStmt:
			if visibleOp(st) {
				*edits = append(*edits, srcEdit{in.off(st.Pos()), in.off(st.Pos()), fmt.Sprintf("zzrt.Point(%q); ", in.site(st.Pos()))})
			}
		case *ast.IfStmt:
			hdr := false
			if st.Init != nil && visibleOp(st.Init) {
				hdr = true
			}
			if visibleOp(st.Cond) {
				hdr = true
			}
			if hdr {
				*edits = append(*edits, srcEdit{in.off(st.Pos()), in.off(st.Pos()), fmt.Sprintf("zzrt.Point(%q); ", in.site(st.Pos()))})
			}
		case *ast.DeferStmt:
			// deferred calls run at function exit; not pinned
		}
		visit(s)
	}
	visitList = func(list []ast.Stmt) {
		for _, s := range list {
			visitStmt(s)
		}
	}
	visit = func(n ast.Node) {
		ast.Inspect(n, func(x ast.Node) bool {
			switch x := x.(type) {
			case *ast.BlockStmt:
				visitList(x.List)
				return false
			case *ast.CaseClause:
				visitList(x.Body)
				return false
			case *ast.CommClause:
				visitList(x.Body)
				return false
			case *ast.GoStmt:
				if x != n {
					visitStmt(x)
					return false
				}
			case *ast.SelectStmt:
				if x != n {
					visitStmt(x)
					return false
				}
			}
			return true
		})
	}
	if st, ok := root.(ast.Stmt); ok && !skipRoot {
		visitStmt(st)
		return
	}
	visit(root)
}

func (in *instrumenter) rewriteSelect(st *ast.SelectStmt) string {
	var sb strings.Builder
	fmt.Fprintf(&sb, "switch zzrt.Sel(%q) {\n", in.site(st.Pos()))
	idx := 0
	hasDefault := false
	for _, c := range st.Body.List {
		cc := c.(*ast.CommClause)
		if cc.Comm == nil {
			hasDefault = true
			continue
		}
		fmt.Fprintf(&sb, "case %d:\n", idx)
		sb.WriteString(in.render(cc.Comm))
		sb.WriteString("\n")
		for _, b := range cc.Body {
			var edits []srcEdit
			_ = edits
			sb.WriteString(in.renderStmt(b))
			sb.WriteString("\n")
		}
		idx++
	}
	_ = hasDefault
	sb.WriteString("default:\n")
	// the original select, with its nested statements instrumented
	sb.WriteString("select {\n")
	for _, c := range st.Body.List {
		cc := c.(*ast.CommClause)
		if cc.Comm == nil {
			sb.WriteString("default:\n")
		} else {
			sb.WriteString("case " + in.render(cc.Comm) + ":\n")
		}
		for _, b := range cc.Body {
			sb.WriteString(in.renderStmt(b))
			sb.WriteString("\n")
		}
	}
	sb.WriteString("}\n}")
	return sb.String()
}

// renderStmt renders a statement including the rewrite that applies to the
// statement itself.
func (in *instrumenter) renderStmt(s ast.Stmt) string {
	var edits []srcEdit
	in.collect(s, &edits, false)
	sort.SliceStable(edits, func(i, j int) bool { return edits[i].start < edits[j].start })
	start, end := in.off(s.Pos()), in.off(s.End())
	var sb strings.Builder
	pos := start
	for _, e := range edits {
		if e.start < pos || e.end > end {
			continue
		}
		sb.Write(in.src[pos:e.start])
		sb.WriteString(e.text)
		pos = e.end
	}
	sb.Write(in.src[pos:end])
	return sb.String()
}

func instrumentFile(root, rel string) error {
	path := filepath.Join(root, rel)
	src, err := os.ReadFile(path)
	if err != nil {
		return err
	}
	fset := token.NewFileSet()
	f, err := parser.ParseFile(fset, path, src, parser.ParseComments)
	if err != nil {
		return err
	}
	in := &instrumenter{fset: fset, src: src, rel: rel, file: fset.File(f.Pos())}
	var edits []srcEdit
	for _, d := range f.Decls {
		fd, ok := d.(*ast.FuncDecl)
		if !ok || fd.Body == nil {
			continue
		}
		in.collect(fd.Body, &edits, true)
	}
	if len(edits) == 0 {
		return nil
	}
	sort.SliceStable(edits, func(i, j int) bool { return edits[i].start < edits[j].start })
	var sb strings.Builder
	pos := 0
	// import right after the package clause
	pkgEnd := in.off(f.Name.End())
	sb.Write(src[:pkgEnd])
	sb.WriteString("\n\nimport zzrt \"" + apiPkg + "\"\n")
	pos = pkgEnd
	for _, e := range edits {
		if e.start < pos {
			continue
		}
		sb.Write(src[pos:e.start])
		sb.WriteString(e.text)
		pos = e.end
	}
	sb.Write(src[pos:])
	out := sb.String()
	if !strings.Contains(out, "//go:build verif") {
		// instrumented repository files only build with the tag on
		out = "//go:build verif\n\n" + out
		// keep the original for the tag-off build
		if err := os.WriteFile(strings.TrimSuffix(path, ".go")+"_zzorig.go", append([]byte("//go:build !verif\n\n"), src...), 0o644); err != nil {
			return err
		}
	}
	return os.WriteFile(path, []byte(out), 0o644)
}

// instrumentScratch rewrites grpchan's own packages and the harness files of the
// scratch copy for schedule-pinned replay.
func instrumentScratch(root string) error {
	dirs := []string{".", "internal", "inprocgrpc", "httpgrpc", "internal/zzfix", "internal/zzcross"}
	for _, d := range dirs {
		ents, err := os.ReadDir(filepath.Join(root, d))
		if err != nil {
			continue
		}
		for _, e := range ents {
			n := e.Name()
			if e.IsDir() || !strings.HasSuffix(n, ".go") || strings.HasSuffix(n, "_test.go") || strings.HasSuffix(n, ".pb.go") ||
				strings.HasSuffix(n, ".pb.grpchan.go") || strings.HasSuffix(n, "_zzorig.go") || n == "doc.go" {
				continue
			}
			rel := filepath.Join(d, n)
			if d == "." {
				rel = n
			}
			if err := instrumentFile(root, rel); err != nil {
				return fmt.Errorf("instrument %s: %v", rel, err)
			}
		}
	}
	return nil
}
