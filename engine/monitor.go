package main

import (
	"fmt"
	"go/token"
	"strconv"
)

// monitor is the access monitor used by the memory-sharing checks (C06): it
// records reads of "released" objects and unsynchronised conflicting accesses.
type monitor struct {
	p *Path
	// released cells: address -> label; any access by a goroutine other than the
	// owner after release is a violation
	released map[*value]relInfo
	// last accesses for the race check
	last map[*value]*accInfo
	race bool
}

type relInfo struct {
	label string
	owner int
}

type accInfo struct {
	wG   int
	wVC  int
	wPos token.Pos
	rd   map[int]int // goroutine -> clock of last read
	rPos map[int]token.Pos
}

func (m *monitor) access(fr *frame, addr *value, write bool, pos token.Pos) {
	p := m.p
	g := fr.g
	if ri, ok := m.released[addr]; ok && g.id != ri.owner {
		if p.eng.inRepo(fr.fn) {
			op := "read"
			if write {
				op = "write"
			}
			p.violationNow(ri.label, fmt.Sprintf("library goroutine g%d(%s) %ss a caller-owned object after it was released, in %v", g.id, g.name, op, fr.fn), pos)
			delete(m.released, addr)
		}
	}
	if !m.race {
		return
	}
	a := m.last[addr]
	if a == nil {
		a = &accInfo{wG: -1, rd: map[int]int{}, rPos: map[int]token.Pos{}}
		m.last[addr] = a
	}
	// happens-before: previous access by goroutine h at clock c is ordered before
	// the current one iff g.vc[h] >= c
	if a.wG >= 0 && a.wG != g.id && g.vc[a.wG] < a.wVC {
		p.violationNow("data-race", fmt.Sprintf("unsynchronised accesses: write by g%d at %s and access by g%d at %s", a.wG, p.posStr(a.wPos), g.id, p.posStr(pos)), pos)
		a.wG = -1
	}
	if write {
		for h, c := range a.rd {
			if h != g.id && g.vc[h] < c {
				p.violationNow("data-race", fmt.Sprintf("unsynchronised accesses: read by g%d at %s and write by g%d at %s", h, p.posStr(a.rPos[h]), g.id, p.posStr(pos)), pos)
				delete(a.rd, h)
			}
		}
		a.wG, a.wVC, a.wPos = g.id, g.vc[g.id], pos
		a.rd = map[int]int{}
	} else {
		a.rd[g.id] = g.vc[g.id]
		a.rPos[g.id] = pos
	}
}

// obsString renders an observed value under a model, in the format the native
// runtime prints (see zzverif.Observe).
func (p *Path) obsString(v value, model map[string]uint64, memo map[int]uint64) string {
	switch v := v.(type) {
	case iface:
		if v.t == nil {
			return "<nil>"
		}
		if t, ok := v.v.(*Term); ok {
			if t.w == 0 {
				return strconv.FormatBool(evalTerm(t, model, memo) == 1)
			}
			_, signed, _ := intInfo(v.t)
			x := evalTerm(t, model, memo)
			if signed {
				return strconv.FormatInt(sext64(x, t.w), 10)
			}
			return strconv.FormatUint(x, 10)
		}
		return p.obsString(v.v, model, memo)
	case *Term:
		if v.w == 0 {
			return strconv.FormatBool(evalTerm(v, model, memo) == 1)
		}
		return strconv.FormatUint(evalTerm(v, model, memo), 10)
	case Str:
		bs := p.bytesOf(v)
		b := make([]byte, len(bs))
		for i, t := range bs {
			b[i] = byte(evalTerm(t, model, memo))
		}
		return strconv.Quote(string(b))
	case []value:
		// []byte
		b := make([]byte, len(v))
		for i, e := range v {
			t, ok := e.(*Term)
			if !ok {
				return "<unprintable>"
			}
			b[i] = byte(evalTerm(t, model, memo))
		}
		return strconv.Quote(string(b))
	}
	return "<unprintable>"
}

// makeSample asks the solver for a model of the completed path and evaluates the
// observation log under it.
func (p *Path) makeSample() {
	if p.status != stComplete || len(p.violations) > 0 {
		return
	}
	res, model, _ := p.sol.Check(nil, p.inputTerms())
	if res != resSat {
		return
	}
	memo := map[int]uint64{}
	var log []string
	for _, o := range p.obs {
		line := o.Label
		for _, v := range o.Terms {
			line += " " + p.obsString(v, model, memo)
		}
		log = append(log, line)
	}
	ch := map[string]int{}
	for k, v := range p.choices {
		ch[k] = v
	}
	p.sample = &obsSample{Harness: p.harness.Name(), Inputs: append([]inputVar{}, p.inputs...), Model: model, Choices: ch, Log: log,
		Sched: append([]schedStep{}, p.sched.trace...)}
	for _, g := range p.sched.gs {
		if !g.env {
			p.sample.Gors++
		}
	}
}
