package main

// SMT term layer: hash-consed, constant-folded terms over Bool and fixed-width
// bit-vectors. One TermCtx per explored path (terms are rebuilt on re-execution,
// ids are deterministic within a path).

import (
	"fmt"
	"math/bits"
	"strings"
)

type Op uint8

const (
	OpConst Op = iota
	OpVar
	OpNot
	OpAnd
	OpOr
	OpIte
	OpEq
	OpAdd
	OpSub
	OpMul
	OpUDiv
	OpURem
	OpSDiv
	OpSRem
	OpBAnd
	OpBOr
	OpBXor
	OpShl
	OpLShr
	OpAShr
	OpNeg
	OpBNot
	OpULt
	OpULe
	OpSLt
	OpSLe
	OpConcat
	OpExtract // args[0], hi, lo in val (hi<<8|lo)
	OpZExt    // to width w
	OpSExt
)

var opNames = map[Op]string{
	OpNot: "not", OpAnd: "and", OpOr: "or", OpIte: "ite", OpEq: "=",
	OpAdd: "bvadd", OpSub: "bvsub", OpMul: "bvmul", OpUDiv: "bvudiv", OpURem: "bvurem",
	OpSDiv: "bvsdiv", OpSRem: "bvsrem", OpBAnd: "bvand", OpBOr: "bvor", OpBXor: "bvxor",
	OpShl: "bvshl", OpLShr: "bvlshr", OpAShr: "bvashr", OpNeg: "bvneg", OpBNot: "bvnot",
	OpULt: "bvult", OpULe: "bvule", OpSLt: "bvslt", OpSLe: "bvsle", OpConcat: "concat",
}

// Term is an SMT term. w == 0 means Bool, otherwise a bit-vector of width w (<= 64
// for anything that is constant-folded; wider terms are allowed but never folded).
type Term struct {
	id   int
	op   Op
	w    int
	val  uint64 // OpConst: value (Bool: 0/1); OpExtract: hi<<16|lo
	name string // OpVar
	args []*Term
}

func (t *Term) IsConst() bool { return t.op == OpConst }
func (t *Term) IsBool() bool  { return t.w == 0 }

type TermCtx struct {
	tab   map[string]*Term
	next  int
	vars  []*Term
	vtab  map[string]*Term
	nodes int
}

func NewTermCtx() *TermCtx {
	return &TermCtx{tab: map[string]*Term{}, vtab: map[string]*Term{}}
}

func mask(w int) uint64 {
	if w >= 64 {
		return ^uint64(0)
	}
	return (uint64(1) << uint(w)) - 1
}

func sext64(v uint64, w int) int64 {
	if w >= 64 {
		return int64(v)
	}
	sh := uint(64 - w)
	return int64(v<<sh) >> sh
}

func (c *TermCtx) mk(op Op, w int, val uint64, name string, args ...*Term) *Term {
	var sb strings.Builder
	fmt.Fprintf(&sb, "%d/%d/%d/%s", op, w, val, name)
	for _, a := range args {
		fmt.Fprintf(&sb, "/%d", a.id)
	}
	k := sb.String()
	if t, ok := c.tab[k]; ok {
		return t
	}
	c.next++
	t := &Term{id: c.next, op: op, w: w, val: val, name: name, args: args}
	c.tab[k] = t
	c.nodes++
	return t
}

func (c *TermCtx) BV(w int, v uint64) *Term {
	if w <= 0 {
		panic("BV width")
	}
	return c.mk(OpConst, w, v&mask(w), "")
}
func (c *TermCtx) Bool(b bool) *Term {
	if b {
		return c.mk(OpConst, 0, 1, "")
	}
	return c.mk(OpConst, 0, 0, "")
}
func (c *TermCtx) True() *Term  { return c.Bool(true) }
func (c *TermCtx) False() *Term { return c.Bool(false) }

// Var returns the variable with the given name (creating it with width w; 0 = Bool).
func (c *TermCtx) Var(name string, w int) *Term {
	if t, ok := c.vtab[name]; ok {
		if t.w != w {
			panic(fmt.Sprintf("var %s redeclared with width %d (was %d)", name, w, t.w))
		}
		return t
	}
	t := c.mk(OpVar, w, 0, name)
	c.vtab[name] = t
	c.vars = append(c.vars, t)
	return t
}

func isTrue(t *Term) bool  { return t.op == OpConst && t.w == 0 && t.val == 1 }
func isFalse(t *Term) bool { return t.op == OpConst && t.w == 0 && t.val == 0 }

func (c *TermCtx) Not(a *Term) *Term {
	if a.w != 0 {
		panic("Not on non-bool")
	}
	if a.op == OpConst {
		return c.Bool(a.val == 0)
	}
	if a.op == OpNot {
		return a.args[0]
	}
	return c.mk(OpNot, 0, 0, "", a)
}

func (c *TermCtx) And(a, b *Term) *Term {
	if isFalse(a) || isFalse(b) {
		return c.False()
	}
	if isTrue(a) {
		return b
	}
	if isTrue(b) {
		return a
	}
	if a == b {
		return a
	}
	return c.mk(OpAnd, 0, 0, "", a, b)
}

func (c *TermCtx) Or(a, b *Term) *Term {
	if isTrue(a) || isTrue(b) {
		return c.True()
	}
	if isFalse(a) {
		return b
	}
	if isFalse(b) {
		return a
	}
	if a == b {
		return a
	}
	return c.mk(OpOr, 0, 0, "", a, b)
}

func (c *TermCtx) Ite(cond, a, b *Term) *Term {
	if a.w != b.w {
		panic("Ite width mismatch")
	}
	if isTrue(cond) {
		return a
	}
	if isFalse(cond) {
		return b
	}
	if a == b {
		return a
	}
	if a.w == 0 {
		// boolean ite
		if isTrue(a) && isFalse(b) {
			return cond
		}
		if isFalse(a) && isTrue(b) {
			return c.Not(cond)
		}
	}
	return c.mk(OpIte, a.w, 0, "", cond, a, b)
}

func (c *TermCtx) Eq(a, b *Term) *Term {
	if a.w != b.w {
		panic(fmt.Sprintf("Eq width mismatch %d vs %d", a.w, b.w))
	}
	if a == b {
		return c.True()
	}
	if a.op == OpConst && b.op == OpConst {
		return c.Bool(a.val == b.val)
	}
	if a.w == 0 {
		if isTrue(a) {
			return b
		}
		if isTrue(b) {
			return a
		}
		if isFalse(a) {
			return c.Not(b)
		}
		if isFalse(b) {
			return c.Not(a)
		}
	}
	if a.id > b.id {
		a, b = b, a
	}
	return c.mk(OpEq, 0, 0, "", a, b)
}

func (c *TermCtx) Ne(a, b *Term) *Term { return c.Not(c.Eq(a, b)) }

func foldBin(op Op, w int, x, y uint64) (uint64, bool) {
	m := mask(w)
	switch op {
	case OpAdd:
		return (x + y) & m, true
	case OpSub:
		return (x - y) & m, true
	case OpMul:
		return (x * y) & m, true
	case OpUDiv:
		if y == 0 {
			return m, true // SMT-LIB: all ones
		}
		return (x / y) & m, true
	case OpURem:
		if y == 0 {
			return x, true
		}
		return (x % y) & m, true
	case OpSDiv:
		sx, sy := sext64(x, w), sext64(y, w)
		if sy == 0 {
			if sx >= 0 {
				return m, true
			}
			return 1, true
		}
		if sy == -1 {
			return uint64(-sx) & m, true
		}
		return uint64(sx/sy) & m, true
	case OpSRem:
		sx, sy := sext64(x, w), sext64(y, w)
		if sy == 0 {
			return x, true
		}
		if sy == -1 {
			return 0, true
		}
		return uint64(sx%sy) & m, true
	case OpBAnd:
		return x & y, true
	case OpBOr:
		return x | y, true
	case OpBXor:
		return x ^ y, true
	case OpShl:
		if y >= uint64(w) {
			return 0, true
		}
		return (x << y) & m, true
	case OpLShr:
		if y >= uint64(w) {
			return 0, true
		}
		return (x >> y) & m, true
	case OpAShr:
		sx := sext64(x, w)
		if y >= uint64(w) {
			if sx < 0 {
				return m, true
			}
			return 0, true
		}
		return uint64(sx>>y) & m, true
	}
	return 0, false
}

func (c *TermCtx) Bin(op Op, a, b *Term) *Term {
	if a.w != b.w || a.w == 0 {
		panic(fmt.Sprintf("Bin %v width mismatch %d vs %d", opNames[op], a.w, b.w))
	}
	w := a.w
	if a.op == OpConst && b.op == OpConst && w <= 64 {
		if v, ok := foldBin(op, w, a.val, b.val); ok {
			return c.BV(w, v)
		}
	}
	// light algebraic simplification
	switch op {
	case OpAdd, OpBOr, OpBXor:
		if b.op == OpConst && b.val == 0 {
			return a
		}
		if a.op == OpConst && a.val == 0 {
			return b
		}
	case OpSub, OpShl, OpLShr, OpAShr:
		if b.op == OpConst && b.val == 0 {
			return a
		}
	case OpMul:
		if b.op == OpConst && b.val == 1 {
			return a
		}
		if a.op == OpConst && a.val == 1 {
			return b
		}
		if (b.op == OpConst && b.val == 0) || (a.op == OpConst && a.val == 0) {
			return c.BV(w, 0)
		}
	case OpBAnd:
		if b.op == OpConst && b.val == mask(w) {
			return a
		}
		if a.op == OpConst && a.val == mask(w) {
			return b
		}
		if (b.op == OpConst && b.val == 0) || (a.op == OpConst && a.val == 0) {
			return c.BV(w, 0)
		}
	}
	// constant re-association: (x + c1) +/- c2
	if (op == OpAdd || op == OpSub) && b.op == OpConst && a.op == OpAdd && w <= 64 {
		var x, k *Term
		if a.args[0].op == OpConst {
			k, x = a.args[0], a.args[1]
		} else if a.args[1].op == OpConst {
			k, x = a.args[1], a.args[0]
		}
		if k != nil {
			var nv uint64
			if op == OpAdd {
				nv = (k.val + b.val) & mask(w)
			} else {
				nv = (k.val - b.val) & mask(w)
			}
			return c.Bin(OpAdd, x, c.BV(w, nv))
		}
	}
	// commutative normalisation
	switch op {
	case OpAdd, OpMul, OpBAnd, OpBOr, OpBXor:
		if a.id > b.id {
			a, b = b, a
		}
	}
	return c.mk(op, w, 0, "", a, b)
}

func (c *TermCtx) Cmp(op Op, a, b *Term) *Term {
	if a.w != b.w || a.w == 0 {
		panic("Cmp width mismatch")
	}
	if a.op == OpConst && b.op == OpConst && a.w <= 64 {
		var r bool
		switch op {
		case OpULt:
			r = a.val < b.val
		case OpULe:
			r = a.val <= b.val
		case OpSLt:
			r = sext64(a.val, a.w) < sext64(b.val, a.w)
		case OpSLe:
			r = sext64(a.val, a.w) <= sext64(b.val, a.w)
		}
		return c.Bool(r)
	}
	if a == b {
		return c.Bool(op == OpULe || op == OpSLe)
	}
	return c.mk(op, 0, 0, "", a, b)
}

func (c *TermCtx) Neg(a *Term) *Term {
	if a.op == OpConst && a.w <= 64 {
		return c.BV(a.w, uint64(-int64(a.val)))
	}
	return c.mk(OpNeg, a.w, 0, "", a)
}

func (c *TermCtx) BNot(a *Term) *Term {
	if a.op == OpConst && a.w <= 64 {
		return c.BV(a.w, ^a.val)
	}
	return c.mk(OpBNot, a.w, 0, "", a)
}

func (c *TermCtx) Extract(a *Term, hi, lo int) *Term {
	w := hi - lo + 1
	if w == a.w {
		return a
	}
	if a.op == OpConst && a.w <= 64 {
		return c.BV(w, a.val>>uint(lo))
	}
	// extract of zext/sext within the original width
	if (a.op == OpZExt || a.op == OpSExt) && hi < a.args[0].w {
		return c.Extract(a.args[0], hi, lo)
	}
	// extract of concat aligned to one side
	if a.op == OpConcat {
		lw := a.args[1].w
		if hi < lw {
			return c.Extract(a.args[1], hi, lo)
		}
		if lo >= lw {
			return c.Extract(a.args[0], hi-lw, lo-lw)
		}
	}
	return c.mk(OpExtract, w, uint64(hi)<<16|uint64(lo), "", a)
}

func (c *TermCtx) ZExt(a *Term, w int) *Term {
	if w == a.w {
		return a
	}
	if w < a.w {
		return c.Extract(a, w-1, 0)
	}
	if a.op == OpConst && w <= 64 {
		return c.BV(w, a.val)
	}
	return c.mk(OpZExt, w, 0, "", a)
}

func (c *TermCtx) SExt(a *Term, w int) *Term {
	if w == a.w {
		return a
	}
	if w < a.w {
		return c.Extract(a, w-1, 0)
	}
	if a.op == OpConst && w <= 64 {
		return c.BV(w, uint64(sext64(a.val, a.w)))
	}
	return c.mk(OpSExt, w, 0, "", a)
}

// Concat returns hi ++ lo.
func (c *TermCtx) Concat(hi, lo *Term) *Term {
	w := hi.w + lo.w
	if hi.op == OpConst && lo.op == OpConst && w <= 64 {
		return c.BV(w, hi.val<<uint(lo.w)|lo.val)
	}
	return c.mk(OpConcat, w, 0, "", hi, lo)
}

// ---- SMT-LIB printing -------------------------------------------------------

func sortStr(w int) string {
	if w == 0 {
		return "Bool"
	}
	return fmt.Sprintf("(_ BitVec %d)", w)
}

func constStr(t *Term) string {
	if t.w == 0 {
		if t.val == 1 {
			return "true"
		}
		return "false"
	}
	if t.w%4 == 0 {
		return fmt.Sprintf("#x%0*x", t.w/4, t.val)
	}
	return fmt.Sprintf("#b%0*b", t.w, t.val)
}

func smtName(name string) string {
	return "|" + strings.NewReplacer("|", "_", "\\", "_").Replace(name) + "|"
}

// emitter tracks which term ids were already defined in the solver's current
// context, so shared sub-terms are sent once (as define-fun).
type emitter struct {
	defined map[int]bool
	out     *strings.Builder
}

func (e *emitter) ref(t *Term) string {
	switch t.op {
	case OpConst:
		return constStr(t)
	case OpVar:
		if !e.defined[t.id] {
			e.defined[t.id] = true
			fmt.Fprintf(e.out, "(declare-const %s %s)\n", smtName(t.name), sortStr(t.w))
		}
		return smtName(t.name)
	}
	nm := fmt.Sprintf("t%d", t.id)
	if e.defined[t.id] {
		return nm
	}
	// iterative post-order to avoid deep recursion
	type item struct {
		t    *Term
		done bool
	}
	stack := []item{{t, false}}
	for len(stack) > 0 {
		it := stack[len(stack)-1]
		stack = stack[:len(stack)-1]
		x := it.t
		if x.op == OpConst || e.defined[x.id] {
			continue
		}
		if x.op == OpVar {
			e.ref(x)
			continue
		}
		if !it.done {
			stack = append(stack, item{x, true})
			for _, a := range x.args {
				if a.op != OpConst && !e.defined[a.id] {
					stack = append(stack, item{a, false})
				}
			}
			continue
		}
		var body string
		argn := make([]string, len(x.args))
		for i, a := range x.args {
			switch a.op {
			case OpConst:
				argn[i] = constStr(a)
			case OpVar:
				argn[i] = smtName(a.name)
			default:
				argn[i] = fmt.Sprintf("t%d", a.id)
			}
		}
		switch x.op {
		case OpExtract:
			body = fmt.Sprintf("((_ extract %d %d) %s)", x.val>>16, x.val&0xffff, argn[0])
		case OpZExt:
			body = fmt.Sprintf("((_ zero_extend %d) %s)", x.w-x.args[0].w, argn[0])
		case OpSExt:
			body = fmt.Sprintf("((_ sign_extend %d) %s)", x.w-x.args[0].w, argn[0])
		default:
			body = "(" + opNames[x.op] + " " + strings.Join(argn, " ") + ")"
		}
		e.defined[x.id] = true
		fmt.Fprintf(e.out, "(define-fun t%d () %s %s)\n", x.id, sortStr(x.w), body)
	}
	return nm
}

// evalTerm evaluates t under a model (variable name -> value). Missing variables
// default to 0. Only widths <= 64 are supported.
func evalTerm(t *Term, model map[string]uint64, memo map[int]uint64) uint64 {
	if v, ok := memo[t.id]; ok {
		return v
	}
	var r uint64
	switch t.op {
	case OpConst:
		r = t.val
	case OpVar:
		r = model[t.name] & maskB(t.w)
	case OpNot:
		r = 1 - evalTerm(t.args[0], model, memo)
	case OpAnd:
		r = evalTerm(t.args[0], model, memo) & evalTerm(t.args[1], model, memo)
	case OpOr:
		r = evalTerm(t.args[0], model, memo) | evalTerm(t.args[1], model, memo)
	case OpIte:
		if evalTerm(t.args[0], model, memo) == 1 {
			r = evalTerm(t.args[1], model, memo)
		} else {
			r = evalTerm(t.args[2], model, memo)
		}
	case OpEq:
		if evalTerm(t.args[0], model, memo) == evalTerm(t.args[1], model, memo) {
			r = 1
		}
	case OpULt, OpULe, OpSLt, OpSLe:
		a, b := evalTerm(t.args[0], model, memo), evalTerm(t.args[1], model, memo)
		w := t.args[0].w
		var ok bool
		switch t.op {
		case OpULt:
			ok = a < b
		case OpULe:
			ok = a <= b
		case OpSLt:
			ok = sext64(a, w) < sext64(b, w)
		case OpSLe:
			ok = sext64(a, w) <= sext64(b, w)
		}
		if ok {
			r = 1
		}
	case OpNeg:
		r = uint64(-int64(evalTerm(t.args[0], model, memo))) & mask(t.w)
	case OpBNot:
		r = ^evalTerm(t.args[0], model, memo) & mask(t.w)
	case OpExtract:
		lo := t.val & 0xffff
		r = (evalTerm(t.args[0], model, memo) >> lo) & mask(t.w)
	case OpZExt:
		r = evalTerm(t.args[0], model, memo)
	case OpSExt:
		r = uint64(sext64(evalTerm(t.args[0], model, memo), t.args[0].w)) & mask(t.w)
	case OpConcat:
		r = (evalTerm(t.args[0], model, memo)<<uint(t.args[1].w) | evalTerm(t.args[1], model, memo)) & mask(t.w)
	default:
		a, b := evalTerm(t.args[0], model, memo), evalTerm(t.args[1], model, memo)
		v, ok := foldBin(t.op, t.w, a, b)
		if !ok {
			panic("evalTerm: op " + opNames[t.op])
		}
		r = v
	}
	memo[t.id] = r
	return r
}

func maskB(w int) uint64 {
	if w == 0 {
		return 1
	}
	return mask(w)
}

var _ = bits.Len
