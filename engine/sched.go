package main

// The engine's scheduler. Every target goroutine runs in a real Go goroutine,
// but only one runs at a time (baton passing through the path driver), so the
// interleaving is fully determined by the driver's picks. Scheduling points are
// the visible operations only (channel operations, select, lock acquisition,
// WaitGroup.Wait, explicit yields placed by the models before reads/writes of
// shared context state). Which enabled goroutine runs next, and which ready
// select case fires, are exploration choices (Path.choose): every alternative is
// explored, subject to the pre-emption bound.

import (
	"fmt"
	"go/token"
	"go/types"
	"strings"
)

type schan struct {
	id     int
	cap    int
	buf    []value
	closed bool
	et     types.Type
}

type mutexState struct {
	locked  bool
	writer  bool
	readers int
	owner   int
}
type wgState struct{ n int64 }
type onceState struct {
	done bool
	mu   mutexState
}

type waitKind int

const (
	wRunnable waitKind = iota // newly created or op already completed by a partner
	wYield
	wSelect
	wLock
	wRLock
	wWG
	wQuiesce
	wDone
)

type selCase struct {
	ch   *schan
	send bool
	val  value
}

type waitOp struct {
	kind       waitKind
	cases      []selCase
	hasDefault bool
	mu         *mutexState
	wg         *wgState
	pos        token.Pos
	opName     string

	// completion by a rendezvous partner
	done   bool
	chosen int
	recv   value
	recvOk bool
}

type gor struct {
	id     int
	p      *Path
	resume chan bool
	wait   *waitOp
	env    bool // environment goroutine (timer, canceller): not a leak if it remains
	name   string
	atomic int
	top    *frame
	// vector clock for the access monitor
	vc map[int]int
}

type evKind int

const (
	evParked evKind = iota
	evDone
	evAbort
)

type schedEvent struct {
	kind   evKind
	g      *gor
	status pathStatus
	msg    string
}

type Sched struct {
	p        *Path
	gs       []*gor
	back     chan schedEvent
	cur      *gor
	preempt  int
	trace    []schedStep
	mainDone bool
	chanSeq  int
	aborting bool
	live     int
}

func newSched(p *Path) *Sched {
	return &Sched{p: p, back: make(chan schedEvent)}
}

func (s *Sched) newChan(et types.Type, capacity int) *schan {
	s.chanSeq++
	return &schan{id: s.chanSeq, cap: capacity, et: et}
}

// spawn creates a target goroutine that will run fn when first scheduled.
func (s *Sched) spawn(name string, env bool, body func(g *gor)) *gor {
	g := &gor{id: len(s.gs), p: s.p, resume: make(chan bool), name: name, env: env,
		wait: &waitOp{kind: wRunnable, opName: "start"}, vc: map[int]int{}}
	if s.cur != nil {
		for k, v := range s.cur.vc {
			g.vc[k] = v
		}
		s.cur.vc[s.cur.id]++
	}
	g.vc[g.id] = 1
	s.gs = append(s.gs, g)
	s.live++
	go func() {
		run := <-g.resume
		ev := schedEvent{kind: evDone, g: g}
		func() {
			defer func() {
				if r := recover(); r != nil {
					switch r := r.(type) {
					case abortPath:
						ev = schedEvent{kind: evDone, g: g}
					case pathEnd:
						ev = schedEvent{kind: evAbort, g: g, status: r.status, msg: r.msg}
					case unsupported:
						ev = schedEvent{kind: evAbort, g: g, status: stUnsupported, msg: r.msg}
					case targetPanic:
						// uncaught panic in a goroutine: the program crashes
						msg := "panic: " + s.p.panicString(r.v)
						s.p.violationNow(s.p.panicLabel(r.v), msg, r.pos)
						if n := len(s.p.violations); n > 0 {
							s.p.violations[n-1].Stack = r.stack
						}
						ev = schedEvent{kind: evAbort, g: g, status: stCut, msg: msg}
					default:
						panic(r)
					}
				}
			}()
			if run {
				body(g)
			}
		}()
		g.wait = &waitOp{kind: wDone}
		s.back <- ev
	}()
	return g
}

func (s *Sched) ready(g *gor, c selCase) bool {
	ch := c.ch
	if ch == nil {
		return false
	}
	if c.send {
		if ch.closed {
			return true // will panic
		}
		if len(ch.buf) < ch.cap {
			return true
		}
		// direct hand-off to a parked receiver only when nothing is buffered
		// (a parked receiver takes buffered values first: FIFO)
		return len(ch.buf) == 0 && len(s.partners(g, ch, false)) > 0
	}
	if len(ch.buf) > 0 || ch.closed {
		return true
	}
	return len(s.partners(g, ch, true)) > 0
}

type partner struct {
	g   *gor
	idx int
}

// partners lists parked goroutines (other than g) with a pending case on ch in
// the given direction.
func (s *Sched) partners(g *gor, ch *schan, wantSend bool) []partner {
	var r []partner
	for _, h := range s.gs {
		if h == g || h.wait == nil || h.wait.kind != wSelect || h.wait.done {
			continue
		}
		for i, c := range h.wait.cases {
			if c.ch == ch && c.send == wantSend {
				r = append(r, partner{h, i})
				break
			}
		}
	}
	return r
}

func (s *Sched) enabled(g *gor) bool {
	w := g.wait
	if w == nil {
		return false
	}
	switch w.kind {
	case wRunnable, wYield:
		return true
	case wDone:
		return false
	case wSelect:
		if w.done || w.hasDefault {
			return true
		}
		for _, c := range w.cases {
			if s.ready(g, c) {
				return true
			}
		}
		return false
	case wLock:
		return !w.mu.locked && w.mu.readers == 0
	case wRLock:
		return !w.mu.writer
	case wWG:
		return w.wg.n == 0
	case wQuiesce:
		// enabled only when nothing else (other than environment events) can run
		for _, h := range s.gs {
			if h != g && !h.env && h.wait != nil && h.wait.kind != wQuiesce && s.enabled(h) {
				return false
			}
		}
		return true
	}
	return false
}

// run drives the path: it is called on the worker goroutine and returns when the
// path has ended.
func (s *Sched) run() (pathStatus, string) {
	status, msg := stComplete, ""
	for {
		var en []*gor
		for _, g := range s.gs {
			if s.enabled(g) {
				en = append(en, g)
			}
		}
		if len(en) == 0 {
			// nothing can run
			blocked := 0
			var names []string
			var bpos token.Pos
			for _, g := range s.gs {
				if g.wait.kind != wDone && !g.env {
					blocked++
					names = append(names, fmt.Sprintf("g%d(%s)@%s:%s", g.id, g.name, g.wait.opName, s.p.posStr(g.wait.pos)))
					if bpos == token.NoPos {
						bpos = g.wait.pos
					}
				}
			}
			if blocked > 0 {
				if !s.mainDone {
					s.p.violationNow("deadlock", "deadlock: "+fmt.Sprint(names), bpos)
				} else {
					s.p.violationNow("goroutine-leak", "goroutines blocked forever after the harness returned: "+fmt.Sprint(names), bpos)
				}
			}
			break
		}
		var pick *gor
		if db := s.p.cfg.DelayBound; db >= 0 {
			// delay-bounded scheduling (Emmi, Qadeer, Rakamaric 2011): a deterministic
			// non-preemptive round-robin scheduler, and every schedule that deviates
			// from it at most db times
			var def *gor
			for _, g := range en {
				if g == s.cur {
					def = g
				}
			}
			if def == nil {
				start := 0
				if s.cur != nil {
					start = s.cur.id + 1
				}
				// environment events (cancellation, timers) are never the default:
				// taking one is a deviation, so every placement of an event along the
				// default schedule costs exactly one delay
				best := -1
				for _, wantEnv := range []bool{false, true} {
					for _, g := range en {
						if g.env != wantEnv {
							continue
						}
						d := (g.id - start + len(s.gs)) % len(s.gs)
						if best < 0 || d < best {
							best, def = d, g
						}
					}
					if def != nil {
						break
					}
				}
			}
			cands := []*gor{def}
			if s.preempt < db && (s.cur == nil || s.cur.atomic == 0) {
				for _, g := range en {
					if g != def {
						cands = append(cands, g)
					}
				}
			}
			pick = cands[s.p.choose(len(cands))]
			if pick != def {
				s.preempt++
			}
		} else {
			// candidates under the pre-emption bound
			cands := en
			curEnabled := false
			for _, g := range en {
				if g == s.cur {
					curEnabled = true
				}
			}
			if curEnabled {
				// lock acquisitions, WaitGroup waits and quiescence waits are blocking
				// points only: no pre-emption is placed in front of them (a stated
				// reduction; pre-emptions go before channel operations, selects, closes,
				// context reads/cancels, atomics and environment events)
				k := s.cur.wait.kind
				noPreempt := !s.p.cfg.PreemptAtLocks && (k == wLock || k == wRLock || k == wWG || k == wQuiesce)
				if s.preempt >= s.p.cfg.Preempt || s.cur.atomic > 0 || noPreempt {
					cands = []*gor{s.cur}
				} else {
					// current first
					cands = []*gor{s.cur}
					for _, g := range en {
						if g != s.cur {
							cands = append(cands, g)
						}
					}
				}
			}
			pick = cands[s.p.choose(len(cands))]
			if curEnabled && pick != s.cur {
				s.preempt++
			}
		}
		s.cur = pick
		pick.resume <- true
		ev := <-s.back
		if ev.kind == evDone {
			s.live--
			if ev.g.id == 0 {
				s.mainDone = true
			}
		}
		if ev.kind == evAbort {
			s.live--
			status, msg = ev.status, ev.msg
			break
		}
	}
	// kill whatever is still parked
	s.aborting = true
	for _, g := range s.gs {
		if g.wait == nil || g.wait.kind != wDone {
			g.resume <- false
			<-s.back
		}
	}
	return status, msg
}

// park is called by the running goroutine at a scheduling point. It returns
// when the driver has picked this goroutine again and its operation is enabled.
func (g *gor) park(w *waitOp) {
	s := g.p.sched
	g.wait = w
	if g.atomic > 0 {
		// no scheduling point inside an atomic section; the op must be enabled
		if !s.enabled(g) {
			panic(unsupported{"blocking operation inside an atomic model section: " + w.opName})
		}
		return
	}
	s.back <- schedEvent{kind: evParked, g: g}
	if !<-g.resume {
		panic(abortPath{})
	}
	g.p.steps++
}

func (g *gor) logStep(op string, pos token.Pos, c int) {
	s := g.p.sched
	st := schedStep{G: g.id, Op: op, Pos: g.p.posStr(pos), Case: c}
	// UPos: the position of the operation in user code (grpchan or harness), i.e.
	// outside the model package; native replay points are keyed by it
	if fr := g.p.curFr; fr != nil && fr.g == g {
		for c := fr; c != nil && c.fn != nil; c = c.caller {
			if c.fn.Pkg != nil && c.fn.Pkg.Pkg.Path() == apiPkg {
				continue
			}
			if c.fn.Pkg == nil && c.fn.Parent() != nil && c.fn.Parent().Pkg != nil && c.fn.Parent().Pkg.Pkg.Path() == apiPkg {
				continue
			}
			if up := c.curPos(); up != token.NoPos {
				st.UPos = g.p.posStr(up)
			}
			break
		}
	}
	up := st.UPos
	if up == "" {
		up = st.Pos
	}
	st.Skip = up == "" || strings.HasPrefix(up, "/") || strings.HasPrefix(up, "internal/zzverif/")
	s.trace = append(s.trace, st)
}

// yield is a scheduling point with no blocking condition.
func (g *gor) yield(op string, pos token.Pos) {
	g.park(&waitOp{kind: wYield, opName: op, pos: pos})
	g.logStep(op, pos, 0)
}

func joinVC(dst, src map[int]int) {
	for k, v := range src {
		if dst[k] < v {
			dst[k] = v
		}
	}
}

// selectOp performs a select (or a plain send/receive as a one-case select).
// It returns the chosen case index (-1 for default), and the received value.
func (g *gor) selectOp(cases []selCase, hasDefault bool, opName string, pos token.Pos) (int, value, bool) {
	s := g.p.sched
	w := &waitOp{kind: wSelect, cases: cases, hasDefault: hasDefault, opName: opName, pos: pos}
	g.park(w)
	if w.done {
		// completed by a partner while parked
		g.logStep(opName+"(completed-by-peer)", pos, w.chosen)
		return w.chosen, w.recv, w.recvOk
	}
	// collect ready alternatives: (case, partner)
	type alt struct {
		idx int
		pt  *partner
	}
	var alts []alt
	for i, c := range cases {
		ch := c.ch
		if ch == nil {
			continue
		}
		if c.send {
			if ch.closed {
				alts = append(alts, alt{i, nil})
				continue
			}
			if len(ch.buf) == 0 {
				// nothing buffered: a parked receiver can be served directly
				pts := s.partners(g, ch, false)
				for _, pt := range pts {
					pt := pt
					alts = append(alts, alt{i, &pt})
				}
				if len(pts) > 0 {
					continue
				}
			}
			if len(ch.buf) < ch.cap {
				alts = append(alts, alt{i, nil})
			}
		} else {
			if len(ch.buf) > 0 || ch.closed {
				alts = append(alts, alt{i, nil})
				continue
			}
			for _, pt := range s.partners(g, ch, true) {
				pt := pt
				alts = append(alts, alt{i, &pt})
			}
		}
	}
	if len(alts) == 0 {
		if hasDefault {
			g.wait = &waitOp{kind: wRunnable}
			g.logStep(opName, pos, -1)
			return -1, nil, false
		}
		panic("selectOp resumed with no ready case")
	}
	a := alts[g.p.choose(len(alts))]
	c := cases[a.idx]
	ch := c.ch
	g.wait = &waitOp{kind: wRunnable}
	g.logStep(opName, pos, a.idx)
	if c.send {
		if ch.closed {
			panic(runtimePanic{"send on closed channel"})
		}
		if a.pt == nil {
			ch.buf = append(ch.buf, copyVal(c.val))
			return a.idx, nil, false
		}
		h := a.pt.g
		h.wait.done = true
		h.wait.chosen = a.pt.idx
		h.wait.recv = copyVal(c.val)
		h.wait.recvOk = true
		joinVC(h.vc, g.vc)
		g.vc[g.id]++
		return a.idx, nil, false
	}
	// receive
	if len(ch.buf) > 0 {
		v := ch.buf[0]
		ch.buf = ch.buf[1:]
		return a.idx, v, true
	}
	if a.pt != nil {
		h := a.pt.g
		v := copyVal(h.wait.cases[a.pt.idx].val)
		h.wait.done = true
		h.wait.chosen = a.pt.idx
		joinVC(g.vc, h.vc)
		return a.idx, v, true
	}
	// closed and empty
	return a.idx, g.p.zero(ch.et), false
}

func (g *gor) closeChan(ch *schan, pos token.Pos) {
	g.yield("close", pos)
	if ch == nil {
		panic(runtimePanic{"close of nil channel"})
	}
	if ch.closed {
		panic(runtimePanic{"close of closed channel"})
	}
	ch.closed = true
}

func (p *Path) mutexOf(addr *value) *mutexState {
	m := p.mutexes[addr]
	if m == nil {
		m = &mutexState{}
		p.mutexes[addr] = m
	}
	return m
}

func (p *Path) wgOf(addr *value) *wgState {
	m := p.wgs[addr]
	if m == nil {
		m = &wgState{}
		p.wgs[addr] = m
	}
	return m
}
