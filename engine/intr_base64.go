package main

import (
	"fmt"
)

// encoding/base64 on symbolic bytes: the real alphabet arithmetic and padding
// rules of the four standard encodings (non-strict decoding, as Go's default),
// expressed as terms. Lengths are concrete on a path, so the quantum structure is
// concrete; validity of the characters is one fork.

type b64enc struct {
	url    bool
	padded bool
	name   string
}

func (p *Path) b64Of(ptr value) b64enc {
	cell, ok := ptr.(*value)
	if !ok || cell == nil {
		panic(runtimePanic{"invalid memory address or nil pointer dereference (nil *base64.Encoding)"})
	}
	n, ok := p.ghost[fmt.Sprintf("b64:%p", cell)].(Str)
	if !ok {
		panic(unsupported{"base64 encoding object not created by the base64 package globals"})
	}
	switch n.s {
	case "URLEncoding":
		return b64enc{true, true, n.s}
	case "RawURLEncoding":
		return b64enc{true, false, n.s}
	case "StdEncoding":
		return b64enc{false, true, n.s}
	case "RawStdEncoding":
		return b64enc{false, false, n.s}
	}
	panic(unsupported{"base64 encoding " + n.s})
}

// b64Char maps a 6-bit value (8-bit term, < 64) to its alphabet character.
func (p *Path) b64Char(e b64enc, v *Term) *Term {
	tc := p.tc
	c62, c63 := byte('+'), byte('/')
	if e.url {
		c62, c63 = '-', '_'
	}
	lt := func(n uint64) *Term { return tc.Cmp(OpULt, v, tc.BV(8, n)) }
	add := func(off int64) *Term { return tc.Bin(OpAdd, v, tc.BV(8, uint64(off))) }
	return tc.Ite(lt(26), add('A'),
		tc.Ite(lt(52), add('a'-26),
			tc.Ite(lt(62), add(int64('0')-52),
				tc.Ite(tc.Eq(v, tc.BV(8, 62)), tc.BV(8, uint64(c62)), tc.BV(8, uint64(c63))))))
}

// b64Val maps a character to (valid, 6-bit value).
func (p *Path) b64Val(e b64enc, c *Term) (*Term, *Term) {
	tc := p.tc
	c62, c63 := byte('+'), byte('/')
	if e.url {
		c62, c63 = '-', '_'
	}
	isU := p.inRange(c, 'A', 'Z')
	isL := p.inRange(c, 'a', 'z')
	isD := p.inRange(c, '0', '9')
	is62 := tc.Eq(c, tc.BV(8, uint64(c62)))
	is63 := tc.Eq(c, tc.BV(8, uint64(c63)))
	valid := tc.Or(isU, tc.Or(isL, tc.Or(isD, tc.Or(is62, is63))))
	sub := func(off int64) *Term { return tc.Bin(OpSub, c, tc.BV(8, uint64(off))) }
	v := tc.Ite(isU, sub('A'),
		tc.Ite(isL, sub('a'-26),
			tc.Ite(isD, sub(int64('0')-52),
				tc.Ite(is62, tc.BV(8, 62), tc.BV(8, 63)))))
	return valid, v
}

func (p *Path) b64Encode(e b64enc, src []*Term) []*Term {
	tc := p.tc
	var out []*Term
	sh := func(t *Term, n int, left bool) *Term {
		if left {
			return tc.Bin(OpShl, t, tc.BV(8, uint64(n)))
		}
		return tc.Bin(OpLShr, t, tc.BV(8, uint64(n)))
	}
	m6 := func(t *Term) *Term { return tc.Bin(OpBAnd, t, tc.BV(8, 0x3f)) }
	i := 0
	for ; i+3 <= len(src); i += 3 {
		a, b, c := src[i], src[i+1], src[i+2]
		out = append(out,
			p.b64Char(e, sh(a, 2, false)),
			p.b64Char(e, m6(tc.Bin(OpBOr, sh(a, 4, true), sh(b, 4, false)))),
			p.b64Char(e, m6(tc.Bin(OpBOr, sh(b, 2, true), sh(c, 6, false)))),
			p.b64Char(e, m6(c)))
	}
	switch len(src) - i {
	case 1:
		a := src[i]
		out = append(out, p.b64Char(e, sh(a, 2, false)), p.b64Char(e, m6(sh(a, 4, true))))
		if e.padded {
			out = append(out, tc.BV(8, '='), tc.BV(8, '='))
		}
	case 2:
		a, b := src[i], src[i+1]
		out = append(out, p.b64Char(e, sh(a, 2, false)),
			p.b64Char(e, m6(tc.Bin(OpBOr, sh(a, 4, true), sh(b, 4, false)))),
			p.b64Char(e, m6(sh(b, 2, true))))
		if e.padded {
			out = append(out, tc.BV(8, '='))
		}
	}
	return out
}

// b64Decode returns the decoded bytes, or ok=false for corrupt input.
func (p *Path) b64Decode(e b64enc, src []*Term) ([]*Term, bool) {
	tc := p.tc
	// Go's decoder skips \r and \n anywhere in the input
	noNL := tc.True()
	for _, c := range src {
		noNL = tc.And(noNL, tc.And(tc.Ne(c, tc.BV(8, '\r')), tc.Ne(c, tc.BV(8, '\n'))))
	}
	if !p.branch(noNL) {
		p.end(stCut, "base64 input containing CR/LF (skipped by the decoder; outside bound)")
	}
	n := len(src)
	// padding
	pad := 0
	if e.padded {
		if n%4 != 0 {
			return nil, false
		}
		if n > 0 && p.branch(tc.Eq(src[n-1], tc.BV(8, '='))) {
			pad = 1
			if p.branch(tc.Eq(src[n-2], tc.BV(8, '='))) {
				pad = 2
			}
		}
	}
	body := src[:n-pad]
	rem := len(body) % 4
	if rem == 1 {
		return nil, false
	}
	if e.padded {
		// with padding the last quantum must be completed exactly
		if pad > 0 && (rem+pad) != 4 {
			return nil, false
		}
		if pad == 0 && rem != 0 {
			return nil, false
		}
	}
	valid := tc.True()
	vals := make([]*Term, len(body))
	for i, c := range body {
		ok, v := p.b64Val(e, c)
		valid = tc.And(valid, ok)
		vals[i] = v
	}
	if !p.branch(valid) {
		return nil, false
	}
	var out []*Term
	sh := func(t *Term, k int, left bool) *Term {
		if left {
			return tc.Bin(OpShl, t, tc.BV(8, uint64(k)))
		}
		return tc.Bin(OpLShr, t, tc.BV(8, uint64(k)))
	}
	for i := 0; i+1 < len(vals); i += 4 {
		a, b := vals[i], vals[i+1]
		out = append(out, tc.Bin(OpBOr, sh(a, 2, true), sh(b, 4, false)))
		if i+2 < len(vals) {
			c := vals[i+2]
			out = append(out, tc.Bin(OpBOr, sh(b, 4, true), sh(c, 2, false)))
			if i+3 < len(vals) {
				d := vals[i+3]
				out = append(out, tc.Bin(OpBOr, sh(c, 6, true), d))
			}
		}
	}
	return out, true
}

func addBase64Intrinsics(m map[string]intrinsicFn) {
	m["(*encoding/base64.Encoding).EncodeToString"] = func(fr *frame, a []value) value {
		p := fr.p
		e := p.b64Of(a[0])
		var src []*Term
		for _, b := range a[1].([]value) {
			src = append(src, b.(*Term))
		}
		return p.mkStr(p.b64Encode(e, src))
	}
	m["(*encoding/base64.Encoding).DecodeString"] = func(fr *frame, a []value) value {
		p := fr.p
		e := p.b64Of(a[0])
		out, ok := p.b64Decode(e, p.bytesOf(a[1].(Str)))
		if !ok {
			return tuple{[]value(nil), p.newErrorString("illegal base64 data")}
		}
		vals := bytesToVals(out)
		if vals == nil {
			vals = []value{}
		}
		return tuple{vals, iface{}}
	}
}
