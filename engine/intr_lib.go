package main

import (
	"fmt"
	"go/token"
	"go/types"
)

// access is the hook of the access monitor (race / released-object checks). It is
// a no-op unless a harness enabled monitoring.
func (p *Path) access(fr *frame, addr *value, write bool, pos token.Pos) {
	if p.mon == nil || addr == nil {
		return
	}
	p.mon.access(fr, addr, write, pos)
}

func (p *Path) unwrapErr(fr *frame, e iface) iface {
	if e.t == nil || !p.hasMethod(e.t, "Unwrap") {
		return iface{}
	}
	r := p.invoke(fr, e, "Unwrap")
	if ri, ok := r.(iface); ok {
		return ri
	}
	return iface{} // Unwrap() []error is not followed
}

func addLibIntrinsics(m map[string]intrinsicFn) {
	m["errors.Is"] = func(fr *frame, a []value) value {
		p := fr.p
		err, target := a[0].(iface), a[1].(iface)
		if err.t == nil || target.t == nil {
			return p.tc.Bool(err.t == nil && target.t == nil)
		}
		for e := err; e.t != nil; e = p.unwrapErr(fr, e) {
			if types.Comparable(target.t) && types.Identical(e.t, target.t) {
				if p.branch(p.equals(e.t, e.v, target.v)) {
					return p.tc.True()
				}
			}
			if p.hasMethod(e.t, "Is") {
				if p.branch(p.invoke(fr, e, "Is", target).(*Term)) {
					return p.tc.True()
				}
			}
		}
		return p.tc.False()
	}
	m["errors.As"] = func(fr *frame, a []value) value {
		p := fr.p
		err, target := a[0].(iface), a[1].(iface)
		if err.t == nil {
			return p.tc.False()
		}
		if target.t == nil {
			panic(runtimePanic{"errors: target cannot be nil"})
		}
		pt, ok := target.t.Underlying().(*types.Pointer)
		if !ok || isNilValue(target.v) {
			panic(runtimePanic{"errors: target must be a non-nil pointer"})
		}
		tt := pt.Elem()
		cell := target.v.(*value)
		for e := err; e.t != nil; e = p.unwrapErr(fr, e) {
			if it, ok := tt.Underlying().(*types.Interface); ok {
				if types.Implements(e.t, it) {
					store(cell, e)
					return p.tc.True()
				}
			} else if types.Identical(e.t, tt) {
				store(cell, e.v)
				return p.tc.True()
			}
			if p.hasMethod(e.t, "As") {
				if p.branch(p.invoke(fr, e, "As", target).(*Term)) {
					return p.tc.True()
				}
			}
		}
		return p.tc.False()
	}
	m["errors.Unwrap"] = func(fr *frame, a []value) value {
		return fr.p.unwrapErr(fr, a[0].(iface))
	}
	m["google.golang.org/grpc/encoding.RegisterCodec"] = func(fr *frame, a []value) value { return nil }
	m["google.golang.org/grpc/encoding.RegisterCompressor"] = func(fr *frame, a []value) value { return nil }
	// time: the clock is abstract. time.Until returns the harness-chosen remaining
	// duration (SetUntil) or an arbitrary int64.
	m["time.Until"] = func(fr *frame, a []value) value {
		p := fr.p
		if v, ok := p.ghost["until"]; ok {
			return v
		}
		p.objSeq++
		return p.symInt(fmt.Sprintf("time.Until#%d", p.objSeq), 64, true)
	}
	m["time.Since"] = func(fr *frame, a []value) value {
		p := fr.p
		p.objSeq++
		return p.symInt(fmt.Sprintf("time.Since#%d", p.objSeq), 64, true)
	}
	m["time.Now"] = func(fr *frame, a []value) value { return fr.p.zero(fr.fn.Signature.Results().At(0).Type()) }
	m[apiName("SetUntil")] = func(fr *frame, a []value) value { fr.p.ghost["until"] = a[0]; return nil }
	// http.ServeMux: contract = exact match of the request path against the
	// registered patterns (pattern syntax, redirects and host matching are net/http's)
	muxHandle := func(fr *frame, a []value) value {
		p := fr.p
		key := fmt.Sprintf("mux:%p", a[0].(*value))
		lst, _ := p.ghost[key].([]value)
		for _, e := range lst {
			if p.branch(p.equals(nil, e.(tuple)[0], a[1])) {
				panic(targetPanic{iface{t: types.Typ[types.String], v: Str{s: "http: multiple registrations for pattern"}}, fr.callpos, fr.stack()})
			}
		}
		p.ghost[key] = append(lst, tuple{a[1], a[2]})
		return nil
	}
	m["(*net/http.ServeMux).HandleFunc"] = muxHandle
	m["(*net/http.ServeMux).ServeHTTP"] = func(fr *frame, a []value) value {
		p := fr.p
		key := fmt.Sprintf("mux:%p", a[0].(*value))
		lst, _ := p.ghost[key].([]value)
		req := a[2].(*value)
		rs := (*req).(structure)
		rt := deref(fr.fn.Signature.Params().At(1).Type()).Underlying().(*types.Struct)
		var urlPtr *value
		for i := 0; i < rt.NumFields(); i++ {
			if rt.Field(i).Name() == "URL" {
				urlPtr = rs[i].(*value)
			}
		}
		if urlPtr == nil {
			panic(runtimePanic{"invalid memory address or nil pointer dereference (request without URL)"})
		}
		ut := p.eng.prog.ImportedPackage("net/url").Type("URL").Type().Underlying().(*types.Struct)
		var pathV value
		for i := 0; i < ut.NumFields(); i++ {
			if ut.Field(i).Name() == "Path" {
				pathV = (*urlPtr).(structure)[i]
			}
		}
		for _, e := range lst {
			if p.branch(p.equals(nil, e.(tuple)[0], pathV)) {
				p.call(fr, fr.callpos, e.(tuple)[1], []value{a[1], a[2]})
				return nil
			}
		}
		nf := p.eng.prog.ImportedPackage("net/http").Func("NotFound")
		p.call(fr, fr.callpos, nf, []value{a[1], a[2]})
		return nil
	}
	// strings.Builder: String() is unsafe.String over the buffer
	m["(*strings.Builder).String"] = func(fr *frame, a []value) value {
		p := fr.p
		st := (*a[0].(*value)).(structure)
		buf := st[len(st)-1].([]value)
		ts := make([]*Term, len(buf))
		for i, b := range buf {
			ts[i] = b.(*Term)
		}
		return p.mkStr(ts)
	}
	m["(*strings.Builder).copyCheck"] = func(fr *frame, a []value) value { return nil }
	// sync.Pool: no pooling, always a fresh value
	m["(*sync.Pool).Get"] = func(fr *frame, a []value) value {
		p := fr.p
		st := (*a[0].(*value)).(structure)
		nf := st[len(st)-1] // New is the last field
		if isNilValue(nf) {
			return iface{}
		}
		return p.call(fr, fr.callpos, nf, nil)
	}
	m["(*sync.Pool).Put"] = func(fr *frame, a []value) value { return nil }
	// io.discard.ReadFrom: read until error; EOF is success
	m["(io.discard).ReadFrom"] = func(fr *frame, a []value) value {
		p := fr.p
		r := a[1].(iface)
		total := int64(0)
		for iter := 0; ; iter++ {
			if iter > p.cfg.Unwind {
				p.end(stUnwind, "io.discard.ReadFrom: reader never ends")
			}
			buf := make([]value, 64)
			for i := range buf {
				buf[i] = p.tc.BV(8, 0)
			}
			res := p.invoke(fr, r, "Read", buf).(tuple)
			n := concInt(res[0], "Read count")
			total += n
			if e := res[1].(iface); e.t != nil {
				eof := load(p.globalAddr(p.eng.prog.ImportedPackage("io").Var("EOF"))).(iface)
				if p.branch(p.equals(nil, e, eof)) {
					return tuple{p.intConst(total), iface{}}
				}
				return tuple{p.intConst(total), e}
			}
		}
	}
}
