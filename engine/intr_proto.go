package main

// Protobuf contract stubs. The protobuf runtime (reflection + unsafe) cannot be
// executed symbolically, so the operations grpchan uses are implemented here over
// the engine's own representation of the *generated Go structs*, driven by their
// `protobuf:"..."` struct tags:
//
//   - Marshal / Unmarshal produce and parse the real protobuf wire format for the
//     field kinds that occur in the anchored code (varint ints/bools/enums, bytes,
//     string with the proto3 UTF-8 rule, nested messages, repeated of those, maps
//     with string keys), so that a native replay sees the same bytes;
//   - Clone is a deep copy, Merge is proto3 merge, Reset zeroes the struct.
//
// Field kinds outside that list abort the path as unsupported.

import (
	"fmt"
	"go/types"
	"reflect"
	"sort"
	"strconv"
	"strings"
)

type pfield struct {
	idx      int
	num      int
	wire     string // varint, bytes, fixed32, fixed64, zigzag32, zigzag64, group
	repeated bool
	typ      types.Type
	isMap    bool
	keyWire  string
	valWire  string
	proto3   bool
	oneof    bool
}

func parsePTag(tag string) (wire string, num int, rep bool, proto3 bool, ok bool) {
	parts := strings.Split(tag, ",")
	if len(parts) < 3 {
		return "", 0, false, false, false
	}
	n, err := strconv.Atoi(parts[1])
	if err != nil {
		return "", 0, false, false, false
	}
	for _, p := range parts[3:] {
		if p == "proto3" {
			proto3 = true
		}
	}
	return parts[0], n, parts[2] == "rep", proto3, true
}

func protoFields(st *types.Struct) []pfield {
	var fs []pfield
	for i := 0; i < st.NumFields(); i++ {
		tag := reflect.StructTag(st.Tag(i))
		pt, ok := tag.Lookup("protobuf")
		if !ok {
			if _, isOneof := tag.Lookup("protobuf_oneof"); isOneof {
				fs = append(fs, pfield{idx: i, oneof: true})
			}
			continue
		}
		wire, num, rep, p3, ok := parsePTag(pt)
		if !ok {
			continue
		}
		f := pfield{idx: i, num: num, wire: wire, repeated: rep, typ: st.Field(i).Type(), proto3: p3}
		if kt, ok := tag.Lookup("protobuf_key"); ok {
			f.isMap = true
			f.keyWire, _, _, _, _ = parsePTag(kt)
			vt, _ := tag.Lookup("protobuf_val")
			f.valWire, _, _, _, _ = parsePTag(vt)
		}
		fs = append(fs, f)
	}
	sort.Slice(fs, func(i, j int) bool { return fs[i].num < fs[j].num })
	return fs
}

func msgStruct(t types.Type) (*types.Struct, bool) {
	if p, ok := t.Underlying().(*types.Pointer); ok {
		t = p.Elem()
	}
	st, ok := t.Underlying().(*types.Struct)
	return st, ok
}

// isProtoStruct reports whether the struct type looks like a generated message.
func isProtoStruct(st *types.Struct) bool {
	for i := 0; i < st.NumFields(); i++ {
		if _, ok := reflect.StructTag(st.Tag(i)).Lookup("protobuf"); ok {
			return true
		}
		if st.Field(i).Name() == "state" && strings.HasSuffix(st.Field(i).Type().String(), "MessageState") {
			return true
		}
	}
	return false
}

type protoErr struct{ msg string }

// unknownIdx returns the index of the generated struct's unknownFields field (the
// raw bytes of fields the message type does not know, which the runtime keeps and
// re-emits), or -1.
func unknownIdx(st *types.Struct) int {
	for i := 0; i < st.NumFields(); i++ {
		f := st.Field(i)
		if f.Name() != "unknownFields" {
			continue
		}
		if sl, ok := f.Type().Underlying().(*types.Slice); ok {
			if b, ok := sl.Elem().Underlying().(*types.Basic); ok && b.Kind() == types.Uint8 {
				return i
			}
		}
	}
	return -1
}

// ---- deep copy / merge / reset -------------------------------------------------

func (p *Path) deepCopy(t types.Type, v value) value {
	switch u := t.Underlying().(type) {
	case *types.Basic:
		return v
	case *types.Pointer:
		ptr := v.(*value)
		if ptr == nil {
			return ptr
		}
		cell := new(value)
		*cell = p.deepCopy(u.Elem(), *ptr)
		return cell
	case *types.Struct:
		s := v.(structure)
		r := make(structure, len(s))
		proto := isProtoStruct(u)
		for i := range s {
			if proto && !u.Field(i).Exported() && u.Field(i).Name() != "unknownFields" {
				r[i] = p.zero(u.Field(i).Type()) // runtime-internal state is not copied
				continue
			}
			r[i] = p.deepCopy(u.Field(i).Type(), s[i])
		}
		return r
	case *types.Slice:
		s := v.([]value)
		if s == nil {
			return s
		}
		r := make([]value, len(s))
		for i := range s {
			r[i] = p.deepCopy(u.Elem(), s[i])
		}
		return r
	case *types.Array:
		a := v.(array)
		r := make(array, len(a))
		for i := range a {
			r[i] = p.deepCopy(u.Elem(), a[i])
		}
		return r
	case *types.Map:
		m := v.(*smap)
		if m == nil {
			return m
		}
		r := &smap{kt: m.kt, vt: m.vt}
		for _, e := range m.ents {
			r.ents = append(r.ents, &ment{k: p.deepCopy(u.Key(), e.k), v: p.deepCopy(u.Elem(), e.v)})
		}
		return r
	case *types.Interface:
		it := v.(iface)
		if it.t == nil {
			return it
		}
		return iface{t: it.t, v: p.deepCopy(it.t, it.v)}
	}
	panic(unsupported{fmt.Sprintf("deepCopy of %v", t)})
}

func (p *Path) isDefault(t types.Type, v value) *Term {
	tc := p.tc
	switch x := v.(type) {
	case *Term:
		if x.w == 0 {
			return tc.Not(x)
		}
		return tc.Eq(x, tc.BV(x.w, 0))
	case Str:
		return tc.Bool(x.Len() == 0)
	case []value:
		return tc.Bool(len(x) == 0)
	case *value:
		return tc.Bool(x == nil)
	case *smap:
		return tc.Bool(x == nil || len(x.ents) == 0)
	case float64:
		return tc.Bool(x == 0)
	case iface:
		return tc.Bool(x.t == nil)
	}
	panic(unsupported{fmt.Sprintf("isDefault of %T", v)})
}

// mergeMsg merges src into dst (both structure values of message type st).
// mergeCopy: the protobuf runtime's merge deep-copies what it takes from the
// source; the dynamic package's merges (p.shallowMerge) take byte slices, map
// values and nested messages by reference.
func (p *Path) mergeCopy(t types.Type, v value) value {
	if p.shallowMerge {
		return v
	}
	return p.deepCopy(t, v)
}

func (p *Path) mergeMsg(st *types.Struct, dst *value, src structure) {
	d := (*dst).(structure)
	if ui := unknownIdx(st); ui >= 0 {
		if su, _ := src[ui].([]value); len(su) > 0 {
			du, _ := d[ui].([]value)
			d[ui] = append(append([]value(nil), du...), su...)
		}
	}
	for _, f := range protoFields(st) {
		if f.oneof {
			if it := src[f.idx].(iface); it.t != nil {
				d[f.idx] = p.mergeCopy(st.Field(f.idx).Type(), src[f.idx])
			}
			continue
		}
		sv := src[f.idx]
		ft := st.Field(f.idx).Type()
		switch {
		case f.isMap:
			sm := sv.(*smap)
			if sm == nil || len(sm.ents) == 0 {
				continue
			}
			dm := d[f.idx].(*smap)
			if dm == nil {
				mt := ft.Underlying().(*types.Map)
				dm = &smap{kt: mt.Key(), vt: mt.Elem()}
				d[f.idx] = dm
			}
			mt := ft.Underlying().(*types.Map)
			for _, e := range sm.ents {
				dm.insert(p, p.mergeCopy(mt.Key(), e.k), p.mergeCopy(mt.Elem(), e.v))
			}
		case f.repeated:
			ss := sv.([]value)
			if len(ss) == 0 {
				continue
			}
			et := ft.Underlying().(*types.Slice).Elem()
			ds := d[f.idx].([]value)
			for _, e := range ss {
				ds = append(ds, p.mergeCopy(et, e))
			}
			d[f.idx] = ds
		default:
			switch u := ft.Underlying().(type) {
			case *types.Pointer:
				sp := sv.(*value)
				if sp == nil {
					continue
				}
				if est, ok := u.Elem().Underlying().(*types.Struct); ok {
					dp := d[f.idx].(*value)
					if dp == nil {
						dp = new(value)
						*dp = p.zero(u.Elem())
						d[f.idx] = dp
					}
					p.mergeMsg(est, dp, (*sp).(structure))
				} else {
					d[f.idx] = p.mergeCopy(ft, sv) // optional scalar
				}
			case *types.Slice: // bytes
				if len(sv.([]value)) > 0 {
					d[f.idx] = p.mergeCopy(ft, sv)
				}
			default:
				def := p.isDefault(ft, sv)
				if def.IsConst() {
					if def.val == 0 {
						d[f.idx] = sv
					}
				} else if t, ok := sv.(*Term); ok {
					d[f.idx] = p.tc.Ite(def, d[f.idx].(*Term), t)
				} else if !p.branch(def) {
					d[f.idx] = sv
				}
			}
		}
	}
}

// ---- wire format ------------------------------------------------------------------

func (p *Path) varintConst(x uint64) []*Term {
	var out []*Term
	for x >= 0x80 {
		out = append(out, p.tc.BV(8, (x&0x7f)|0x80))
		x >>= 7
	}
	return append(out, p.tc.BV(8, x))
}

// varintOf encodes a 64-bit term as a varint, forking on the byte count when the
// value is symbolic.
func (p *Path) varintOf(x *Term) []*Term {
	tc := p.tc
	if x.IsConst() {
		return p.varintConst(x.val)
	}
	k := 1
	for ; k < 10; k++ {
		if p.branch(tc.Cmp(OpULt, x, tc.BV(64, uint64(1)<<uint(7*k)))) {
			break
		}
	}
	out := make([]*Term, k)
	for i := 0; i < k; i++ {
		b := tc.Extract(tc.Bin(OpLShr, x, tc.BV(64, uint64(7*i))), 7, 0)
		b = tc.Bin(OpBAnd, b, tc.BV(8, 0x7f))
		if i < k-1 {
			b = tc.Bin(OpBOr, b, tc.BV(8, 0x80))
		}
		out[i] = b
	}
	return out
}

func wireTypeOf(w string) int {
	switch w {
	case "varint", "zigzag32", "zigzag64":
		return 0
	case "fixed64":
		return 1
	case "bytes":
		return 2
	case "fixed32":
		return 5
	}
	return -1
}

func (p *Path) tagBytes(num int, wt int) []*Term {
	return p.varintConst(uint64(num)<<3 | uint64(wt))
}

// encodeScalar encodes one non-repeated value of the given wire kind (without tag).
func (p *Path) encodeScalar(wire string, t types.Type, v value) []*Term {
	tc := p.tc
	switch wire {
	case "varint":
		x := v.(*Term)
		if x.w == 0 {
			return []*Term{tc.Ite(x, tc.BV(8, 1), tc.BV(8, 0))}
		}
		_, signed, _ := intInfo(t)
		return p.varintOf(p.ext(x, signed, 64))
	case "zigzag32", "zigzag64":
		x := p.ext(v.(*Term), true, 64)
		zz := tc.Bin(OpBXor, tc.Bin(OpShl, x, tc.BV(64, 1)), tc.Bin(OpAShr, x, tc.BV(64, 63)))
		return p.varintOf(zz)
	case "bytes":
		var body []*Term
		switch x := v.(type) {
		case Str:
			body = p.bytesOf(x)
			if !p.branch(p.utf8Valid(body)) {
				panic(protoErr{"string field contains invalid UTF-8"})
			}
		case []value:
			for _, b := range x {
				body = append(body, b.(*Term))
			}
		case *value:
			st, _ := msgStruct(t)
			body = p.marshalMsg(st, (*x).(structure))
		default:
			panic(unsupported{fmt.Sprintf("proto bytes field of %T", v)})
		}
		return append(p.varintConst(uint64(len(body))), body...)
	case "fixed32", "fixed64":
		x := v.(*Term)
		n := 4
		if wire == "fixed64" {
			n = 8
		}
		out := make([]*Term, n)
		for i := 0; i < n; i++ {
			out[i] = tc.Extract(x, 8*i+7, 8*i)
		}
		return out
	}
	panic(unsupported{"proto wire kind " + wire})
}

func (p *Path) marshalMsg(st *types.Struct, s structure) []*Term {
	var out []*Term
	for _, f := range protoFields(st) {
		if f.oneof {
			if it := s[f.idx].(iface); it.t != nil {
				panic(unsupported{"protobuf oneof field"})
			}
			continue
		}
		v := s[f.idx]
		ft := st.Field(f.idx).Type()
		wt := wireTypeOf(f.wire)
		if wt < 0 {
			panic(unsupported{"proto wire kind " + f.wire})
		}
		switch {
		case f.isMap:
			m := v.(*smap)
			if m == nil {
				continue
			}
			mt := ft.Underlying().(*types.Map)
			it := p.newMapIter(m).(*mapIter)
			for _, e := range it.order {
				var entry []*Term
				entry = append(entry, p.tagBytes(1, wireTypeOf(f.keyWire))...)
				entry = append(entry, p.encodeScalar(f.keyWire, mt.Key(), e.k)...)
				if vp, ok := e.v.(*value); ok && vp == nil {
					// nil message value: encoded as empty message
					entry = append(entry, p.tagBytes(2, 2)...)
					entry = append(entry, p.tc.BV(8, 0))
				} else {
					entry = append(entry, p.tagBytes(2, wireTypeOf(f.valWire))...)
					entry = append(entry, p.encodeScalar(f.valWire, mt.Elem(), e.v)...)
				}
				out = append(out, p.tagBytes(f.num, 2)...)
				out = append(out, p.varintConst(uint64(len(entry)))...)
				out = append(out, entry...)
			}
		case f.repeated:
			et := ft.Underlying().(*types.Slice).Elem()
			if wt != 2 {
				panic(unsupported{"repeated scalar protobuf field (packed encoding)"})
			}
			for _, e := range v.([]value) {
				if ep, ok := e.(*value); ok && ep == nil {
					panic(protoErr{"repeated field has nil element"})
				}
				out = append(out, p.tagBytes(f.num, wt)...)
				out = append(out, p.encodeScalar(f.wire, et, e)...)
			}
		default:
			if vp, ok := v.(*value); ok {
				if vp == nil {
					continue
				}
			} else {
				def := p.isDefault(ft, v)
				if p.branch(def) {
					continue // proto3: default values are not emitted
				}
			}
			out = append(out, p.tagBytes(f.num, wt)...)
			out = append(out, p.encodeScalar(f.wire, ft, v)...)
		}
	}
	// unknown fields kept by the runtime are re-emitted after the known ones
	if ui := unknownIdx(st); ui >= 0 {
		if u, _ := s[ui].([]value); len(u) > 0 {
			for _, b := range u {
				out = append(out, b.(*Term))
			}
		}
	}
	return out
}

type pdec struct {
	p   *Path
	b   []*Term
	pos int
}

func (d *pdec) fail(msg string) {
	panic(protoErr{"proto: cannot parse invalid wire-format data (" + msg + ")"})
}

// varint reads a varint; the continuation bit of every byte is decided by a
// (possibly forking) branch.
func (d *pdec) varint() *Term {
	tc := d.p.tc
	val := tc.BV(64, 0)
	for i := 0; i < 10; i++ {
		if d.pos >= len(d.b) {
			d.fail("truncated varint")
		}
		b := d.b[d.pos]
		d.pos++
		low := tc.ZExt(tc.Bin(OpBAnd, b, tc.BV(8, 0x7f)), 64)
		val = tc.Bin(OpBOr, val, tc.Bin(OpShl, low, tc.BV(64, uint64(7*i))))
		more := tc.Ne(tc.Bin(OpBAnd, b, tc.BV(8, 0x80)), tc.BV(8, 0))
		if !d.p.branch(more) {
			if i == 9 {
				// tenth byte may only carry one bit
				if !d.p.branch(tc.Cmp(OpULe, b, tc.BV(8, 1))) {
					d.fail("varint overflow")
				}
			}
			return val
		}
	}
	d.fail("varint too long")
	return nil
}

func (d *pdec) lenDelim() []*Term {
	n := d.varint()
	remaining := len(d.b) - d.pos
	if !d.p.branch(d.p.tc.Cmp(OpULe, n, d.p.tc.BV(64, uint64(remaining)))) {
		d.fail("length exceeds remaining data")
	}
	k := int(d.p.concretize(n, false, 0, int64(remaining)))
	r := d.b[d.pos : d.pos+k]
	d.pos += k
	return r
}

func (d *pdec) skip(wt int) {
	switch wt {
	case 0:
		d.varint()
	case 1:
		if d.pos+8 > len(d.b) {
			d.fail("truncated fixed64")
		}
		d.pos += 8
	case 2:
		d.lenDelim()
	case 5:
		if d.pos+4 > len(d.b) {
			d.fail("truncated fixed32")
		}
		d.pos += 4
	default:
		d.fail("group or invalid wire type")
	}
}

func (p *Path) decodeScalar(wire string, t types.Type, d *pdec) value {
	tc := p.tc
	switch wire {
	case "varint":
		x := d.varint()
		if isBool(t) {
			return tc.Ne(x, tc.BV(64, 0))
		}
		w, _, _ := intInfo(t)
		return tc.Extract(x, w-1, 0)
	case "zigzag32", "zigzag64":
		x := d.varint()
		dec := tc.Bin(OpBXor, tc.Bin(OpLShr, x, tc.BV(64, 1)), tc.Neg(tc.Bin(OpBAnd, x, tc.BV(64, 1))))
		w, _, _ := intInfo(t)
		return tc.Extract(dec, w-1, 0)
	case "bytes":
		body := d.lenDelim()
		switch u := t.Underlying().(type) {
		case *types.Basic: // string
			if !p.branch(p.utf8Valid(body)) {
				d.fail("string field contains invalid UTF-8")
			}
			return p.mkStr(append([]*Term{}, body...))
		case *types.Slice:
			return bytesToVals(append([]*Term{}, body...))
		case *types.Pointer:
			st, _ := msgStruct(u)
			cell := new(value)
			*cell = p.zero(u.Elem())
			p.unmarshalInto(st, cell, body)
			return cell
		}
	case "fixed32", "fixed64":
		n := 4
		if wire == "fixed64" {
			n = 8
		}
		if d.pos+n > len(d.b) {
			d.fail("truncated fixed")
		}
		var x *Term
		for i := n - 1; i >= 0; i-- {
			if x == nil {
				x = d.b[d.pos+i]
			} else {
				x = tc.Concat(x, d.b[d.pos+i])
			}
		}
		d.pos += n
		return x
	}
	panic(unsupported{"proto decode wire kind " + wire})
}

// unmarshalInto parses body into the message at dst (merging, as protobuf does;
// callers reset first where the API requires it).
func (p *Path) unmarshalInto(st *types.Struct, dst *value, body []*Term) {
	tc := p.tc
	fields := protoFields(st)
	d := &pdec{p: p, b: body}
	s := (*dst).(structure)
	ui := unknownIdx(st)
	for d.pos < len(d.b) {
		tagStart := d.pos
		tag := d.varint()
		// which known field (with its expected wire type) is it?
		var hit *pfield
		for i := range fields {
			f := &fields[i]
			if f.oneof {
				continue
			}
			wt := wireTypeOf(f.wire)
			if f.isMap || f.repeated {
				wt = 2
			}
			if p.branch(tc.Eq(tag, tc.BV(64, uint64(f.num)<<3|uint64(wt)))) {
				hit = f
				break
			}
		}
		if hit == nil {
			// unknown field (or known field with another wire type): skipped if the
			// wire type is valid and the field number is not zero
			if p.branch(tc.Cmp(OpULt, tag, tc.BV(64, 8))) {
				d.fail("field number zero")
			}
			wtT := tc.Extract(tag, 2, 0)
			wt := int(p.concretize(wtT, false, 0, 7))
			d.skip(wt)
			if ui >= 0 {
				// the runtime keeps the raw bytes of the field
				u, _ := s[ui].([]value)
				u = append([]value(nil), u...)
				for _, b := range d.b[tagStart:d.pos] {
					u = append(u, b)
				}
				s[ui] = u
			}
			continue
		}
		ft := st.Field(hit.idx).Type()
		switch {
		case hit.isMap:
			mt := ft.Underlying().(*types.Map)
			entry := d.lenDelim()
			ed := &pdec{p: p, b: entry}
			var k, v value
			k = p.zero(mt.Key())
			v = nil
			for ed.pos < len(ed.b) {
				et := ed.varint()
				switch {
				case p.branch(tc.Eq(et, tc.BV(64, 1<<3|uint64(wireTypeOf(hit.keyWire))))):
					k = p.decodeScalar(hit.keyWire, mt.Key(), ed)
				case p.branch(tc.Eq(et, tc.BV(64, 2<<3|uint64(wireTypeOf(hit.valWire))))):
					v = p.decodeScalar(hit.valWire, mt.Elem(), ed)
				default:
					if p.branch(tc.Cmp(OpULt, et, tc.BV(64, 8))) {
						ed.fail("field number zero")
					}
					ed.skip(int(p.concretize(tc.Extract(et, 2, 0), false, 0, 7)))
				}
			}
			if v == nil {
				if pt, ok := mt.Elem().Underlying().(*types.Pointer); ok {
					cell := new(value)
					*cell = p.zero(pt.Elem())
					v = cell
				} else {
					v = p.zero(mt.Elem())
				}
			}
			m := s[hit.idx].(*smap)
			if m == nil {
				m = &smap{kt: mt.Key(), vt: mt.Elem()}
				s[hit.idx] = m
			}
			m.insert(p, k, v)
		case hit.repeated:
			et := ft.Underlying().(*types.Slice).Elem()
			v := p.decodeScalar(hit.wire, et, d)
			s[hit.idx] = append(s[hit.idx].([]value), v)
		default:
			if pt, ok := ft.Underlying().(*types.Pointer); ok {
				if est, ok := pt.Elem().Underlying().(*types.Struct); ok {
					// nested message: merge into existing
					body := d.lenDelim()
					cell := s[hit.idx].(*value)
					if cell == nil {
						cell = new(value)
						*cell = p.zero(pt.Elem())
						s[hit.idx] = cell
					}
					p.unmarshalInto(est, cell, body)
					continue
				}
			}
			s[hit.idx] = p.decodeScalar(hit.wire, ft, d)
		}
	}
}

// ---- intrinsics -----------------------------------------------------------------------

var fakeCodecType = types.NewNamed(types.NewTypeName(0, nil, "gosym.protoCodec", nil), types.NewStruct(nil, nil), nil)

func (p *Path) errValue(msg string) value { return p.newErrorString(msg) }

func (p *Path) protoMarshal(fr *frame, m value) value {
	it, ok := m.(iface)
	if !ok || it.t == nil {
		return tuple{[]value(nil), p.errValue("proto: Marshal called with nil")}
	}
	st, ok := msgStruct(it.t)
	ptr, isPtr := it.v.(*value)
	if !ok || !isPtr || !isProtoStruct(st) {
		return tuple{[]value(nil), p.errValue(fmt.Sprintf("failed to marshal, message is %s, want proto.Message", typeString(it.t)))}
	}
	if ptr == nil {
		return tuple{[]value{}, iface{}}
	}
	var res value
	func() {
		defer func() {
			if r := recover(); r != nil {
				if pe, ok := r.(protoErr); ok {
					res = tuple{[]value(nil), p.errValue(pe.msg)}
					return
				}
				panic(r)
			}
		}()
		bs := p.marshalMsg(st, (*ptr).(structure))
		vals := bytesToVals(bs)
		if vals == nil {
			vals = []value{}
		}
		res = tuple{vals, iface{}}
	}()
	return res
}

func (p *Path) protoUnmarshal(fr *frame, data value, m value, reset bool) value {
	it, ok := m.(iface)
	if !ok || it.t == nil {
		return p.errValue("proto: Unmarshal called with nil")
	}
	st, ok := msgStruct(it.t)
	ptr, isPtr := it.v.(*value)
	if !ok || !isPtr || ptr == nil || !isProtoStruct(st) {
		return p.errValue(fmt.Sprintf("failed to unmarshal, message is %s, want proto.Message", typeString(it.t)))
	}
	var bs []*Term
	for _, b := range data.([]value) {
		bs = append(bs, b.(*Term))
	}
	var res value = iface{}
	func() {
		defer func() {
			if r := recover(); r != nil {
				if pe, ok := r.(protoErr); ok {
					res = p.errValue(pe.msg)
					return
				}
				panic(r)
			}
		}()
		if reset {
			*ptr = p.zero(deref(it.t))
		}
		p.unmarshalInto(st, ptr, bs)
	}()
	return res
}

func addProtoIntrinsics(m map[string]intrinsicFn) {
	clone := func(fr *frame, a []value) value {
		it := a[0].(iface)
		if it.t == nil {
			return it
		}
		return iface{t: it.t, v: fr.p.deepCopy(it.t, it.v)}
	}
	m["github.com/golang/protobuf/proto.Clone"] = clone
	m["google.golang.org/protobuf/proto.Clone"] = clone
	merge := func(fr *frame, dst, src iface) value {
		p := fr.p
		if dst.t == nil || src.t == nil {
			panic(runtimePanic{"proto: Merge with nil message"})
		}
		if !types.Identical(dst.t, src.t) {
			return p.errValue(fmt.Sprintf("incompatible message types: %s and %s", typeString(dst.t), typeString(src.t)))
		}
		st, ok := msgStruct(dst.t)
		dp, ok1 := dst.v.(*value)
		sp, ok2 := src.v.(*value)
		if !ok || !ok1 || !ok2 || !isProtoStruct(st) {
			panic(unsupported{"proto merge of non-struct message " + typeString(dst.t)})
		}
		if sp == nil {
			return iface{}
		}
		if dp == nil {
			panic(runtimePanic{"proto: Merge into nil message"})
		}
		p.mergeMsg(st, dp, (*sp).(structure))
		return iface{}
	}
	m["github.com/jhump/protoreflect/dynamic.TryMerge"] = func(fr *frame, a []value) value {
		return merge(fr, a[0].(iface), a[1].(iface))
	}
	m["github.com/golang/protobuf/proto.Merge"] = func(fr *frame, a []value) value {
		merge(fr, a[0].(iface), a[1].(iface))
		return nil
	}
	m["google.golang.org/protobuf/proto.Merge"] = m["github.com/golang/protobuf/proto.Merge"]
	m["google.golang.org/protobuf/proto.Unmarshal"] = func(fr *frame, a []value) value {
		return fr.p.protoUnmarshal(fr, a[0], a[1], true)
	}
	m["google.golang.org/protobuf/proto.Marshal"] = func(fr *frame, a []value) value {
		return fr.p.protoMarshal(fr, a[0])
	}
	m["github.com/golang/protobuf/proto.Marshal"] = m["google.golang.org/protobuf/proto.Marshal"]
	m["github.com/golang/protobuf/proto.Unmarshal"] = m["google.golang.org/protobuf/proto.Unmarshal"]
	m["github.com/golang/protobuf/proto.MessageV2"] = func(fr *frame, a []value) value { return a[0] }
	m["github.com/golang/protobuf/proto.MessageV1"] = func(fr *frame, a []value) value { return a[0] }
	m["google.golang.org/grpc/encoding.GetCodec"] = func(fr *frame, a []value) value {
		name := argStr(a[0], "codec name")
		switch name {
		case "proto":
			return iface{t: fakeCodecType, v: &opaque{kind: "codec", data: "proto"}}
		case "json":
			return iface{t: fakeCodecType, v: &opaque{kind: "codec", data: "json"}}
		}
		return iface{}
	}
}

func codecMethod(name string) value {
	return &nativeFunc{name: "codec." + name, fn: func(fr *frame, a []value) value {
		p := fr.p
		kind := a[0].(*opaque).data.(string)
		switch name {
		case "Name":
			return Str{s: kind}
		case "Marshal":
			if kind != "proto" {
				p.note("JSON codec is not modelled (only its selection is checked): Marshal reports an error")
				return tuple{[]value(nil), p.errValue("json codec not modelled")}
			}
			return p.protoMarshal(fr, a[1])
		case "Unmarshal":
			if kind != "proto" {
				p.note("JSON codec is not modelled (only its selection is checked): Unmarshal reports an error")
				return p.errValue("json codec not modelled")
			}
			return p.protoUnmarshal(fr, a[1], a[2], true)
		}
		panic(unsupported{"codec method " + name})
	}}
}

// protoResetIntrinsic implements the generated Reset() of message types: the
// struct is zeroed (the generated body additionally re-attaches runtime state via
// unsafe, which has no observable effect here).
func protoResetIntrinsic(fr *frame, a []value) value {
	ptr := a[0].(*value)
	if ptr == nil {
		panic(runtimePanic{"invalid memory address or nil pointer dereference"})
	}
	*ptr = fr.p.zero(deref(fr.fn.Signature.Recv().Type()))
	return nil
}

// ---- dynamic messages -------------------------------------------------------------------
//
// Model of *dynamic.Message (jhump/protoreflect): a dynamic message of message type T
// is a box around a value of the generated struct for T, i.e. "the same message in
// another representation". Contract (dynamic/dynamic_message.go, merge.go):
//   TryMerge(dst, src): dst dynamic -> dst.MergeFrom(src); src dynamic -> src.MergeInto(dst);
//                       otherwise type check + proto.Merge.
//   MergeFrom/MergeInto/ConvertFrom/ConvertTo refuse a message of another type
//   (compared by fully-qualified name; here by the identity of the generated Go type),
//   ConvertFrom = Reset + merge, ConvertTo = target.Reset + merge, merge = proto3 merge.
// Unknown fields of dynamic messages are outside the model (the harness gives them none).

type dynBox struct {
	t   types.Type // pointer-to-generated-struct type of the message type
	ptr *value     // cell holding the structure
}

const dynMsgType = "github.com/jhump/protoreflect/dynamic.Message"

func dynOf(v value) *dynBox {
	ptr, ok := v.(*value)
	if !ok || ptr == nil {
		return nil
	}
	if o, ok := (*ptr).(*opaque); ok && o.kind == "dynmsg" {
		return o.data.(*dynBox)
	}
	return nil
}

func dynOfIface(it iface) *dynBox {
	if it.t == nil {
		return nil
	}
	return dynOf(it.v)
}

func (p *Path) newDyn(t types.Type, content value) *value {
	cell := new(value)
	inner := new(value)
	*inner = content
	*cell = &opaque{kind: "dynmsg", data: &dynBox{t: t, ptr: inner}}
	return cell
}

func addDynIntrinsics(m map[string]intrinsicFn) {
	genOf := func(it iface) (types.Type, *value) {
		if b := dynOfIface(it); b != nil {
			return b.t, b.ptr
		}
		ptr, _ := it.v.(*value)
		return it.t, ptr
	}
	// merge src into dst (either may be dynamic); returns error value or iface{}
	mergeAny := func(fr *frame, dst, src iface) value {
		p := fr.p
		if dst.t == nil || src.t == nil {
			panic(runtimePanic{"proto: Merge with nil message"})
		}
		dt, dp := genOf(dst)
		st, sp := genOf(src)
		if !types.Identical(dt, st) {
			return p.errValue(fmt.Sprintf("message types are not compatible: %s and %s", typeString(dt), typeString(st)))
		}
		stt, ok := msgStruct(dt)
		if !ok || !isProtoStruct(stt) {
			panic(unsupported{"dynamic merge of non-struct message " + typeString(dt)})
		}
		if sp == nil {
			return iface{}
		}
		if dp == nil {
			panic(runtimePanic{"proto: Merge into nil message"})
		}
		if dynOfIface(dst) != nil || dynOfIface(src) != nil {
			p.shallowMerge = true
			defer func() { p.shallowMerge = false }()
		}
		p.mergeMsg(stt, dp, (*sp).(structure))
		return iface{}
	}
	resetAny := func(fr *frame, it iface) {
		t, ptr := genOf(it)
		if ptr == nil {
			panic(runtimePanic{"invalid memory address or nil pointer dereference"})
		}
		*ptr = fr.p.zero(deref(t))
	}
	selfIface := func(fr *frame, a value) iface {
		return iface{t: fr.fn.Signature.Recv().Type(), v: a}
	}
	pre := "(*" + dynMsgType + ")."
	m[apiName("DynOf")] = func(fr *frame, a []value) value {
		it := a[0].(iface)
		st, ok := msgStruct(it.t)
		ptr, isPtr := it.v.(*value)
		if !ok || !isPtr || ptr == nil || !isProtoStruct(st) {
			panic(unsupported{"DynOf of " + typeString(it.t)})
		}
		return fr.p.newDyn(it.t, fr.p.deepCopy(deref(it.t), *ptr))
	}
	m[pre+"Reset"] = func(fr *frame, a []value) value { resetAny(fr, selfIface(fr, a[0])); return nil }
	m[pre+"ProtoMessage"] = func(fr *frame, a []value) value { return nil }
	m[pre+"String"] = func(fr *frame, a []value) value { return Str{s: "<dynamic message>"} }
	m[pre+"MergeFrom"] = func(fr *frame, a []value) value { return mergeAny(fr, selfIface(fr, a[0]), a[1].(iface)) }
	m[pre+"Merge"] = func(fr *frame, a []value) value {
		if e, isErr := mergeAny(fr, selfIface(fr, a[0]), a[1].(iface)).(iface); isErr && e.t != nil {
			panic(runtimePanic{"dynamic.Message.Merge: incompatible types"})
		}
		return nil
	}
	m[pre+"MergeInto"] = func(fr *frame, a []value) value { return mergeAny(fr, a[1].(iface), selfIface(fr, a[0])) }
	m[pre+"ConvertFrom"] = func(fr *frame, a []value) value {
		self := selfIface(fr, a[0])
		src := a[1].(iface)
		dt, _ := genOf(self)
		st, _ := genOf(src)
		if src.t == nil || !types.Identical(dt, st) {
			return fr.p.errValue("message types are not compatible")
		}
		resetAny(fr, self)
		return mergeAny(fr, self, src)
	}
	m[pre+"ConvertTo"] = func(fr *frame, a []value) value {
		self := selfIface(fr, a[0])
		dst := a[1].(iface)
		dt, _ := genOf(dst)
		st, _ := genOf(self)
		if dst.t == nil || !types.Identical(dt, st) {
			return fr.p.errValue("message types are not compatible")
		}
		resetAny(fr, dst)
		return mergeAny(fr, dst, self)
	}
	m[pre+"GetMessageDescriptor"] = func(fr *frame, a []value) value {
		b := dynOf(a[0])
		if b == nil {
			panic(unsupported{"GetMessageDescriptor of a non-model dynamic message"})
		}
		cell := new(value)
		*cell = &opaque{kind: "msgdesc", data: b.t}
		return cell
	}
	m["github.com/jhump/protoreflect/dynamic.NewMessage"] = func(fr *frame, a []value) value {
		ptr, _ := a[0].(*value)
		if ptr == nil {
			panic(unsupported{"dynamic.NewMessage(nil)"})
		}
		o, ok := (*ptr).(*opaque)
		if !ok || o.kind != "msgdesc" {
			panic(unsupported{"dynamic.NewMessage of a descriptor that is not from the model"})
		}
		t := o.data.(types.Type)
		return fr.p.newDyn(t, fr.p.zero(deref(t)))
	}
	m[pre+"Marshal"] = func(fr *frame, a []value) value {
		b := dynOf(a[0])
		if b == nil {
			panic(unsupported{"Marshal of a non-model dynamic message"})
		}
		return fr.p.protoMarshal(fr, iface{t: b.t, v: b.ptr})
	}
	m[pre+"Unmarshal"] = func(fr *frame, a []value) value {
		b := dynOf(a[0])
		if b == nil {
			panic(unsupported{"Unmarshal into a non-model dynamic message"})
		}
		return fr.p.protoUnmarshal(fr, a[1], iface{t: b.t, v: b.ptr}, true)
	}
	m["github.com/jhump/protoreflect/dynamic.TryMerge"] = func(fr *frame, a []value) value {
		dst, src := a[0].(iface), a[1].(iface)
		if dynOfIface(dst) == nil && dynOfIface(src) == nil {
			if dst.t != nil {
				if ptr, ok := dst.v.(*value); ok && ptr == nil {
					return fr.p.errValue("proto: nil destination")
				}
			}
			if dst.t != nil && src.t != nil && !types.Identical(dst.t, src.t) {
				return fr.p.errValue("proto: type mismatch")
			}
		}
		return mergeAny(fr, dst, src)
	}
	clonePrev := m["github.com/golang/protobuf/proto.Clone"]
	cloneDyn := func(fr *frame, a []value) value {
		it := a[0].(iface)
		if b := dynOfIface(it); b != nil {
			// proto.Clone of a dynamic message = new message + (shallow) merge
			c := fr.p.newDyn(b.t, fr.p.zero(deref(b.t)))
			mergeAny(fr, iface{t: it.t, v: c}, it)
			return iface{t: it.t, v: c}
		}
		return clonePrev(fr, a)
	}
	m["github.com/golang/protobuf/proto.Clone"] = cloneDyn
	m["google.golang.org/protobuf/proto.Clone"] = cloneDyn
	mergePrev := m["github.com/golang/protobuf/proto.Merge"]
	mergeDyn := func(fr *frame, a []value) value {
		if dynOfIface(a[0].(iface)) != nil || dynOfIface(a[1].(iface)) != nil {
			if e, isErr := mergeAny(fr, a[0].(iface), a[1].(iface)).(iface); isErr && e.t != nil {
				panic(runtimePanic{"proto.Merge: incompatible types"})
			}
			return nil
		}
		return mergePrev(fr, a)
	}
	m["github.com/golang/protobuf/proto.Merge"] = mergeDyn
	m["google.golang.org/protobuf/proto.Merge"] = mergeDyn
}
