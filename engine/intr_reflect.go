package main

import (
	"fmt"
	"go/types"
	"reflect"
)

// reflect over go/types and the engine heap. reflect.Type values are interface
// values with the fake dynamic type fakeRtypeType holding an rtype; reflect.Value
// is an rvalue.

func (p *Path) mkRtype(t types.Type) value {
	if t == nil {
		return iface{}
	}
	return iface{t: fakeRtypeType, v: rtype{t}}
}

func kindOf(t types.Type) reflect.Kind {
	switch u := t.Underlying().(type) {
	case *types.Basic:
		switch u.Kind() {
		case types.Bool:
			return reflect.Bool
		case types.Int:
			return reflect.Int
		case types.Int8:
			return reflect.Int8
		case types.Int16:
			return reflect.Int16
		case types.Int32:
			return reflect.Int32
		case types.Int64:
			return reflect.Int64
		case types.Uint:
			return reflect.Uint
		case types.Uint8:
			return reflect.Uint8
		case types.Uint16:
			return reflect.Uint16
		case types.Uint32:
			return reflect.Uint32
		case types.Uint64:
			return reflect.Uint64
		case types.Uintptr:
			return reflect.Uintptr
		case types.Float32:
			return reflect.Float32
		case types.Float64:
			return reflect.Float64
		case types.String:
			return reflect.String
		case types.UnsafePointer:
			return reflect.UnsafePointer
		}
	case *types.Pointer:
		return reflect.Ptr
	case *types.Struct:
		return reflect.Struct
	case *types.Slice:
		return reflect.Slice
	case *types.Array:
		return reflect.Array
	case *types.Map:
		return reflect.Map
	case *types.Chan:
		return reflect.Chan
	case *types.Signature:
		return reflect.Func
	case *types.Interface:
		return reflect.Interface
	}
	return reflect.Invalid
}

func rtypeMethod(name string) value {
	return &nativeFunc{name: "reflect.Type." + name, fn: func(fr *frame, a []value) value {
		p := fr.p
		t := a[0].(rtype).t
		switch name {
		case "Elem":
			switch u := t.Underlying().(type) {
			case *types.Pointer:
				return p.mkRtype(u.Elem())
			case *types.Slice:
				return p.mkRtype(u.Elem())
			case *types.Array:
				return p.mkRtype(u.Elem())
			case *types.Map:
				return p.mkRtype(u.Elem())
			case *types.Chan:
				return p.mkRtype(u.Elem())
			}
			panic(runtimePanic{"reflect: Elem of invalid type " + typeString(t)})
		case "Kind":
			return p.tc.BV(64, uint64(kindOf(t)))
		case "String":
			return Str{s: typeString(t)}
		case "Name":
			if n, ok := t.(*types.Named); ok {
				return Str{s: n.Obj().Name()}
			}
			if b, ok := t.(*types.Basic); ok {
				return Str{s: b.Name()}
			}
			return Str{}
		case "PkgPath":
			if n, ok := t.(*types.Named); ok && n.Obj().Pkg() != nil {
				return Str{s: n.Obj().Pkg().Path()}
			}
			return Str{}
		case "Implements":
			u := a[1].(iface).v.(rtype).t
			it, ok := u.Underlying().(*types.Interface)
			if !ok {
				panic(runtimePanic{"reflect: non-interface type passed to Type.Implements"})
			}
			return p.tc.Bool(types.Implements(t, it))
		case "AssignableTo":
			u := a[1].(iface).v.(rtype).t
			return p.tc.Bool(types.AssignableTo(t, u))
		case "NumMethod":
			return p.intConst(int64(p.eng.prog.MethodSets.MethodSet(t).Len()))
		}
		panic(unsupported{"reflect.Type." + name})
	}}
}

func (p *Path) rvalueOf(v value) rvalue {
	it := v.(iface)
	if it.t == nil {
		return rvalue{}
	}
	return rvalue{t: it.t, v: it.v}
}

func (rv rvalue) cur() value {
	if rv.addr != nil {
		return *rv.addr
	}
	return rv.v
}

func addReflectIntrinsics(m map[string]intrinsicFn) {
	m["reflect.TypeOf"] = func(fr *frame, a []value) value {
		return fr.p.mkRtype(a[0].(iface).t)
	}
	ptrTo := func(fr *frame, a []value) value {
		return fr.p.mkRtype(types.NewPointer(a[0].(iface).v.(rtype).t))
	}
	m["reflect.PtrTo"] = ptrTo
	m["reflect.PointerTo"] = ptrTo
	m["reflect.ValueOf"] = func(fr *frame, a []value) value { return fr.p.rvalueOf(a[0]) }
	m["(reflect.Value).Kind"] = func(fr *frame, a []value) value {
		rv := a[0].(rvalue)
		if rv.t == nil {
			return fr.p.tc.BV(64, 0)
		}
		return fr.p.tc.BV(64, uint64(kindOf(rv.t)))
	}
	m["(reflect.Value).IsValid"] = func(fr *frame, a []value) value {
		return fr.p.tc.Bool(a[0].(rvalue).t != nil)
	}
	m["(reflect.Value).IsNil"] = func(fr *frame, a []value) value {
		rv := a[0].(rvalue)
		if rv.t == nil {
			panic(runtimePanic{"reflect: call of reflect.Value.IsNil on zero Value"})
		}
		switch rv.t.Underlying().(type) {
		case *types.Pointer, *types.Map, *types.Slice, *types.Chan, *types.Signature, *types.Interface:
			return fr.p.tc.Bool(isNilValue(rv.cur()))
		}
		if b, ok := rv.t.Underlying().(*types.Basic); ok && b.Kind() == types.UnsafePointer {
			return fr.p.tc.Bool(isNilValue(rv.cur()))
		}
		panic(runtimePanic{"reflect: call of reflect.Value.IsNil on " + typeString(rv.t) + " Value"})
	}
	m["(reflect.Value).Type"] = func(fr *frame, a []value) value {
		rv := a[0].(rvalue)
		if rv.t == nil {
			panic(runtimePanic{"reflect: call of reflect.Value.Type on zero Value"})
		}
		return fr.p.mkRtype(rv.t)
	}
	m["(reflect.Value).Elem"] = func(fr *frame, a []value) value {
		rv := a[0].(rvalue)
		if rv.t == nil {
			panic(runtimePanic{"reflect: call of reflect.Value.Elem on zero Value"})
		}
		switch u := rv.t.Underlying().(type) {
		case *types.Pointer:
			ptr := rv.cur().(*value)
			if ptr == nil {
				return rvalue{}
			}
			return rvalue{t: u.Elem(), addr: ptr}
		case *types.Interface:
			it := rv.cur().(iface)
			if it.t == nil {
				return rvalue{}
			}
			return rvalue{t: it.t, v: it.v}
		}
		panic(runtimePanic{"reflect: call of reflect.Value.Elem on " + typeString(rv.t) + " Value"})
	}
	m["reflect.Indirect"] = func(fr *frame, a []value) value {
		rv := a[0].(rvalue)
		if rv.t == nil {
			return rv
		}
		if u, ok := rv.t.Underlying().(*types.Pointer); ok {
			ptr := rv.cur().(*value)
			if ptr == nil {
				return rvalue{}
			}
			return rvalue{t: u.Elem(), addr: ptr}
		}
		return rv
	}
	m["(reflect.Value).CanSet"] = func(fr *frame, a []value) value {
		rv := a[0].(rvalue)
		return fr.p.tc.Bool(rv.addr != nil && !rv.ro)
	}
	m["(reflect.Value).CanAddr"] = func(fr *frame, a []value) value {
		return fr.p.tc.Bool(a[0].(rvalue).addr != nil)
	}
	m["(reflect.Value).NumField"] = func(fr *frame, a []value) value {
		rv := a[0].(rvalue)
		if rv.t == nil {
			panic(runtimePanic{"reflect: call of reflect.Value.NumField on zero Value"})
		}
		st, ok := rv.t.Underlying().(*types.Struct)
		if !ok {
			panic(runtimePanic{"reflect: call of reflect.Value.NumField on " + typeString(rv.t) + " Value"})
		}
		return fr.p.intConst(int64(st.NumFields()))
	}
	m["(reflect.Value).Field"] = func(fr *frame, a []value) value {
		rv := a[0].(rvalue)
		if rv.t == nil {
			panic(runtimePanic{"reflect: call of reflect.Value.Field on zero Value"})
		}
		st, ok := rv.t.Underlying().(*types.Struct)
		if !ok {
			panic(runtimePanic{"reflect: call of reflect.Value.Field on " + typeString(rv.t) + " Value"})
		}
		i := int(fr.p.concretize(a[1].(*Term), true, 0, int64(st.NumFields())))
		if i < 0 || i >= st.NumFields() {
			panic(runtimePanic{"reflect: Field index out of range"})
		}
		f := st.Field(i)
		out := rvalue{t: f.Type(), ro: rv.ro || !f.Exported()}
		if rv.addr != nil {
			out.addr = &(*rv.addr).(structure)[i]
		} else {
			out.v = rv.v.(structure)[i]
		}
		return out
	}
	m["(reflect.Value).Set"] = func(fr *frame, a []value) value {
		dst, src := a[0].(rvalue), a[1].(rvalue)
		if dst.addr == nil {
			panic(runtimePanic{"reflect: reflect.Value.Set using unaddressable value"})
		}
		if dst.ro || src.ro {
			panic(runtimePanic{"reflect: reflect.Value.Set using value obtained using unexported field"})
		}
		if src.t == nil {
			panic(runtimePanic{"reflect: call of reflect.Value.Set on zero Value"})
		}
		if !types.AssignableTo(src.t, dst.t) {
			panic(runtimePanic{fmt.Sprintf("reflect.Set: value of type %s is not assignable to type %s", typeString(src.t), typeString(dst.t))})
		}
		fr.p.access(fr, dst.addr, true, fr.callpos)
		store(dst.addr, src.cur())
		return nil
	}
	m["(reflect.Value).Interface"] = func(fr *frame, a []value) value {
		rv := a[0].(rvalue)
		if rv.t == nil {
			panic(runtimePanic{"reflect: call of reflect.Value.Interface on zero Value"})
		}
		if _, ok := rv.t.Underlying().(*types.Interface); ok {
			return rv.cur()
		}
		return iface{t: rv.t, v: copyVal(rv.cur())}
	}
	m["reflect.New"] = func(fr *frame, a []value) value {
		t := a[0].(iface).v.(rtype).t
		cell := new(value)
		*cell = fr.p.zero(t)
		return rvalue{t: types.NewPointer(t), v: cell}
	}
	m["reflect.Zero"] = func(fr *frame, a []value) value {
		t := a[0].(iface).v.(rtype).t
		return rvalue{t: t, v: fr.p.zero(t)}
	}
	m["(reflect.Value).Len"] = func(fr *frame, a []value) value {
		rv := a[0].(rvalue)
		switch x := rv.cur().(type) {
		case []value:
			return fr.p.intConst(int64(len(x)))
		case Str:
			return fr.p.intConst(int64(x.Len()))
		case *smap:
			if x == nil {
				return fr.p.intConst(0)
			}
			return fr.p.intConst(int64(len(x.ents)))
		case array:
			return fr.p.intConst(int64(len(x)))
		}
		panic(unsupported{"reflect.Value.Len"})
	}
}
