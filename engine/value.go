package main

// Value representation of the symbolic interpreter. The heap has concrete shape
// (Go pointers to cells); scalars and bytes are SMT terms.

import (
	"fmt"
	"go/types"
	"strings"

	"golang.org/x/tools/go/ssa"
)

type value interface{}

// Str is a Go string value. If b == nil the string is the concrete s; otherwise
// its length is len(b) (concrete on this path) and every byte is an 8-bit term.
type Str struct {
	s string
	b []*Term
}

type structure []value
type array []value
type tuple []value

type iface struct {
	t types.Type // dynamic type; nil for a nil interface
	v value
}

type closure struct {
	Fn  *ssa.Function
	Env []value
}

// nativeFunc is a function value implemented by the engine (used for model
// callbacks such as cancel functions created by intrinsics).
type nativeFunc struct {
	name string
	fn   func(fr *frame, args []value) value
}

// rtype is the engine's reflect.Type; rvalue is reflect.Value.
type rtype struct{ t types.Type }
type rvalue struct {
	t    types.Type
	v    value  // the value (for addressable values: current content is *addr)
	addr *value // non-nil if addressable/settable
	ro   bool   // obtained through an unexported struct field: not settable, not usable as a Set source
}

// opaque is an engine object standing for an external library object with no
// modelled structure (e.g. *base64.Encoding).
type opaque struct {
	kind string
	data interface{}
}

type bad struct{}

func (p *Path) strConst(s string) Str { return Str{s: s} }

func (s Str) Len() int {
	if s.b == nil {
		return len(s.s)
	}
	return len(s.b)
}

func (s Str) Concrete() (string, bool) {
	if s.b == nil {
		return s.s, true
	}
	return "", false
}

// bytesOf returns the bytes of s as terms.
func (p *Path) bytesOf(s Str) []*Term {
	if s.b != nil {
		return s.b
	}
	r := make([]*Term, len(s.s))
	for i := 0; i < len(s.s); i++ {
		r[i] = p.tc.BV(8, uint64(s.s[i]))
	}
	return r
}

// mkStr builds a Str from byte terms, normalising to the concrete form when all
// bytes are constants.
func (p *Path) mkStr(b []*Term) Str {
	all := true
	for _, t := range b {
		if !t.IsConst() {
			all = false
			break
		}
	}
	if all {
		bs := make([]byte, len(b))
		for i, t := range b {
			bs[i] = byte(t.val)
		}
		return Str{s: string(bs)}
	}
	if len(b) == 0 {
		return Str{}
	}
	return Str{b: b}
}

// ---- type helpers -----------------------------------------------------------

func intInfo(t types.Type) (w int, signed bool, ok bool) {
	b, isb := t.Underlying().(*types.Basic)
	if !isb {
		return 0, false, false
	}
	switch b.Kind() {
	case types.Int8:
		return 8, true, true
	case types.Int16:
		return 16, true, true
	case types.Int32, types.UntypedRune:
		return 32, true, true
	case types.Int64, types.Int, types.UntypedInt:
		return 64, true, true
	case types.Uint8:
		return 8, false, true
	case types.Uint16:
		return 16, false, true
	case types.Uint32:
		return 32, false, true
	case types.Uint64, types.Uint, types.Uintptr:
		return 64, false, true
	}
	return 0, false, false
}

func isString(t types.Type) bool {
	b, ok := t.Underlying().(*types.Basic)
	return ok && b.Info()&types.IsString != 0
}
func isBool(t types.Type) bool {
	b, ok := t.Underlying().(*types.Basic)
	return ok && b.Info()&types.IsBoolean != 0
}
func isFloat(t types.Type) bool {
	b, ok := t.Underlying().(*types.Basic)
	return ok && b.Info()&types.IsFloat != 0
}

func deref(t types.Type) types.Type {
	if p, ok := t.Underlying().(*types.Pointer); ok {
		return p.Elem()
	}
	panic(unsupported{fmt.Sprintf("deref of non-pointer type %v", t)})
}

// zero returns the zero value of type t.
func (p *Path) zero(t types.Type) value {
	switch t := t.(type) {
	case *types.Basic:
		if t.Kind() == types.UntypedNil {
			panic("untyped nil has no zero value")
		}
		if t.Info()&types.IsBoolean != 0 {
			return p.tc.False()
		}
		if t.Info()&types.IsString != 0 {
			return Str{}
		}
		if t.Info()&types.IsFloat != 0 {
			return float64(0)
		}
		if t.Kind() == types.UnsafePointer {
			return (*value)(nil)
		}
		if w, _, ok := intInfo(t); ok {
			return p.tc.BV(w, 0)
		}
		panic(unsupported{fmt.Sprintf("zero of basic type %v", t)})
	case *types.Pointer:
		return (*value)(nil)
	case *types.Array:
		a := make(array, t.Len())
		for i := range a {
			a[i] = p.zero(t.Elem())
		}
		return a
	case *types.Named:
		return p.zero(t.Underlying())
	case *types.Alias:
		return p.zero(types.Unalias(t))
	case *types.Interface:
		return iface{}
	case *types.Slice:
		return []value(nil)
	case *types.Struct:
		s := make(structure, t.NumFields())
		for i := range s {
			s[i] = p.zero(t.Field(i).Type())
		}
		return s
	case *types.Tuple:
		if t.Len() == 1 {
			return p.zero(t.At(0).Type())
		}
		s := make(tuple, t.Len())
		for i := range s {
			s[i] = p.zero(t.At(i).Type())
		}
		return s
	case *types.Chan:
		return (*schan)(nil)
	case *types.Map:
		return (*smap)(nil)
	case *types.Signature:
		return (*ssa.Function)(nil)
	}
	panic(unsupported{fmt.Sprintf("zero: unexpected type %T %v", t, t)})
}

// copyVal returns a copy of v with value semantics (structures and arrays are
// duplicated; everything else is immutable or a reference).
func copyVal(v value) value {
	switch v := v.(type) {
	case structure:
		r := make(structure, len(v))
		for i, f := range v {
			r[i] = copyVal(f)
		}
		return r
	case array:
		r := make(array, len(v))
		for i, f := range v {
			r[i] = copyVal(f)
		}
		return r
	case iface:
		// the dynamic value of an interface is immutable; but a struct held in an
		// interface must not alias storage
		switch v.v.(type) {
		case structure, array:
			return iface{t: v.t, v: copyVal(v.v)}
		}
		return v
	}
	return v
}

func load(addr *value) value {
	if addr == nil {
		panic(runtimePanic{"invalid memory address or nil pointer dereference"})
	}
	return copyVal(*addr)
}

func store(addr *value, v value) {
	if addr == nil {
		panic(runtimePanic{"invalid memory address or nil pointer dereference"})
	}
	*addr = copyVal(v)
}

// ---- equality ---------------------------------------------------------------

// equals returns a Bool term that is true iff x == y under Go's == for type t.
func (p *Path) equals(t types.Type, x, y value) *Term {
	tc := p.tc
	switch x := x.(type) {
	case *Term:
		return tc.Eq(x, y.(*Term))
	case Str:
		ys := y.(Str)
		if x.Len() != ys.Len() {
			return tc.False()
		}
		if x.b == nil && ys.b == nil {
			return tc.Bool(x.s == ys.s)
		}
		xb, yb := p.bytesOf(x), p.bytesOf(ys)
		r := tc.True()
		for i := range xb {
			r = tc.And(r, tc.Eq(xb[i], yb[i]))
			if isFalse(r) {
				return r
			}
		}
		return r
	case float64:
		return tc.Bool(x == y.(float64))
	case *value:
		return tc.Bool(x == y.(*value))
	case structure:
		ys := y.(structure)
		st := t.Underlying().(*types.Struct)
		r := tc.True()
		for i := range x {
			if st.Field(i).Name() == "_" {
				continue
			}
			r = tc.And(r, p.equals(st.Field(i).Type(), x[i], ys[i]))
		}
		return r
	case array:
		ya := y.(array)
		et := t.Underlying().(*types.Array).Elem()
		r := tc.True()
		for i := range x {
			r = tc.And(r, p.equals(et, x[i], ya[i]))
		}
		return r
	case iface:
		yi := y.(iface)
		if x.t == nil || yi.t == nil {
			return tc.Bool(x.t == nil && yi.t == nil)
		}
		if !types.Identical(x.t, yi.t) {
			return tc.False()
		}
		if !types.Comparable(x.t) {
			panic(runtimePanic{fmt.Sprintf("comparing uncomparable type %v", x.t)})
		}
		return p.equals(x.t, x.v, yi.v)
	case *schan:
		return tc.Bool(x == y.(*schan))
	case *smap:
		return tc.Bool(x == y.(*smap))
	case rtype:
		yr, ok := y.(rtype)
		return tc.Bool(ok && types.Identical(x.t, yr.t))
	case *opaque:
		yo, ok := y.(*opaque)
		return tc.Bool(ok && x == yo)
	case *ssa.Function:
		yf, ok := y.(*ssa.Function)
		return tc.Bool(ok && x == yf)
	case *closure:
		yc, ok := y.(*closure)
		return tc.Bool(ok && x == yc)
	case []value:
		// only comparison with nil is legal
		return tc.Bool(x == nil && y.([]value) == nil)
	case nil:
		return tc.Bool(y == nil)
	}
	panic(unsupported{fmt.Sprintf("equals: unhandled %T (type %v)", x, t)})
}

// isNilValue reports whether v is the nil value of a nillable type.
func isNilValue(v value) bool {
	switch v := v.(type) {
	case *value:
		return v == nil
	case []value:
		return v == nil
	case *smap:
		return v == nil
	case *schan:
		return v == nil
	case iface:
		return v.t == nil
	case *ssa.Function:
		return v == nil
	case *closure:
		return v == nil
	case *nativeFunc:
		return v == nil
	case nil:
		return true
	}
	return false
}

// ---- printing (for diagnostics, samples and observation logs) ----------------

func termStr(t *Term) string {
	if t.IsConst() {
		if t.w == 0 {
			return fmt.Sprint(t.val == 1)
		}
		return fmt.Sprint(t.val)
	}
	if t.op == OpVar {
		return "$" + t.name
	}
	return fmt.Sprintf("<t%d>", t.id)
}

func valStr(v value) string {
	var sb strings.Builder
	writeVal(&sb, v, 0)
	return sb.String()
}

func writeVal(sb *strings.Builder, v value, depth int) {
	if depth > 4 {
		sb.WriteString("…")
		return
	}
	switch v := v.(type) {
	case nil:
		sb.WriteString("<nil>")
	case *Term:
		sb.WriteString(termStr(v))
	case Str:
		if v.b == nil {
			fmt.Fprintf(sb, "%q", v.s)
		} else {
			sb.WriteString("str[")
			for i, b := range v.b {
				if i > 0 {
					sb.WriteByte(' ')
				}
				sb.WriteString(termStr(b))
			}
			sb.WriteString("]")
		}
	case float64:
		fmt.Fprint(sb, v)
	case *value:
		if v == nil {
			sb.WriteString("nil")
		} else {
			sb.WriteString("&")
			writeVal(sb, *v, depth+1)
		}
	case structure:
		sb.WriteString("{")
		for i, f := range v {
			if i > 0 {
				sb.WriteString(", ")
			}
			writeVal(sb, f, depth+1)
		}
		sb.WriteString("}")
	case array:
		sb.WriteString("[")
		for i, f := range v {
			if i > 0 {
				sb.WriteString(", ")
			}
			writeVal(sb, f, depth+1)
		}
		sb.WriteString("]")
	case []value:
		if v == nil {
			sb.WriteString("nil[]")
			return
		}
		sb.WriteString("[]{")
		for i, f := range v {
			if i > 0 {
				sb.WriteString(", ")
			}
			writeVal(sb, f, depth+1)
		}
		sb.WriteString("}")
	case tuple:
		sb.WriteString("(")
		for i, f := range v {
			if i > 0 {
				sb.WriteString(", ")
			}
			writeVal(sb, f, depth+1)
		}
		sb.WriteString(")")
	case iface:
		if v.t == nil {
			sb.WriteString("nil-iface")
		} else {
			fmt.Fprintf(sb, "%v(", v.t)
			writeVal(sb, v.v, depth+1)
			sb.WriteString(")")
		}
	case *smap:
		if v == nil {
			sb.WriteString("nil-map")
			return
		}
		sb.WriteString("map{")
		for i, e := range v.ents {
			if i > 0 {
				sb.WriteString(", ")
			}
			writeVal(sb, e.k, depth+1)
			sb.WriteString(": ")
			writeVal(sb, e.v, depth+1)
		}
		sb.WriteString("}")
	case *ssa.Function:
		if v == nil {
			sb.WriteString("nil-func")
		} else {
			sb.WriteString(v.String())
		}
	case *closure:
		sb.WriteString("closure " + v.Fn.String())
	case *schan:
		fmt.Fprintf(sb, "chan#%p", v)
	case rtype:
		fmt.Fprintf(sb, "rtype(%v)", v.t)
	default:
		fmt.Fprintf(sb, "%T", v)
	}
}
