package main

import (
	"fmt"
	"go/token"
	"go/types"
	"unicode/utf8"

	"golang.org/x/tools/go/ssa"
)

// ---- integer helpers --------------------------------------------------------

func (p *Path) ext(t *Term, signed bool, w int) *Term {
	if signed {
		return p.tc.SExt(t, w)
	}
	return p.tc.ZExt(t, w)
}

func (p *Path) intConst(v int64) *Term { return p.tc.BV(64, uint64(v)) }

// concInt returns the concrete value of an int term or fails as unsupported.
func concInt(v value, what string) int64 {
	t := v.(*Term)
	if !t.IsConst() {
		panic(unsupported{"symbolic " + what})
	}
	return sext64(t.val, t.w)
}

// ---- binop --------------------------------------------------------------------

func (fr *frame) binop(op token.Token, t types.Type, x, y value, pos token.Pos) value {
	p := fr.p
	tc := p.tc
	switch xv := x.(type) {
	case *Term:
		yv := y.(*Term)
		if xv.w == 0 {
			// booleans
			switch op {
			case token.EQL:
				return tc.Eq(xv, yv)
			case token.NEQ:
				return tc.Ne(xv, yv)
			case token.LAND:
				return tc.And(xv, yv)
			case token.LOR:
				return tc.Or(xv, yv)
			}
			panic(unsupported{"bool binop " + op.String()})
		}
		w, signed, ok := intInfo(t)
		if !ok {
			panic(unsupported{fmt.Sprintf("binop %v on %v", op, t)})
		}
		switch op {
		case token.ADD:
			return tc.Bin(OpAdd, xv, yv)
		case token.SUB:
			return tc.Bin(OpSub, xv, yv)
		case token.MUL:
			return tc.Bin(OpMul, xv, yv)
		case token.QUO, token.REM:
			if p.branch(tc.Eq(yv, tc.BV(w, 0))) {
				panic(runtimePanic{"integer divide by zero"})
			}
			if signed {
				if op == token.QUO {
					return tc.Bin(OpSDiv, xv, yv)
				}
				return tc.Bin(OpSRem, xv, yv)
			}
			if op == token.QUO {
				return tc.Bin(OpUDiv, xv, yv)
			}
			return tc.Bin(OpURem, xv, yv)
		case token.AND:
			return tc.Bin(OpBAnd, xv, yv)
		case token.OR:
			return tc.Bin(OpBOr, xv, yv)
		case token.XOR:
			return tc.Bin(OpBXor, xv, yv)
		case token.AND_NOT:
			return tc.Bin(OpBAnd, xv, tc.BNot(yv))
		case token.SHL, token.SHR:
			// y has its own width and signedness (type of the Y operand is not
			// given here; ssa guarantees it is an integer). Negative signed counts panic
			// at run time; the SSA builder inserts that check itself for signed
			// counts, so here the count is treated as unsigned.
			cnt := yv
			var c2 *Term
			if cnt.w > w {
				big := tc.Cmp(OpULe, tc.BV(cnt.w, uint64(w)), cnt)
				c2 = tc.Ite(big, tc.BV(w, uint64(w)), tc.Extract(cnt, w-1, 0))
			} else {
				c2 = tc.ZExt(cnt, w)
			}
			if op == token.SHL {
				return tc.Bin(OpShl, xv, c2)
			}
			if signed {
				return tc.Bin(OpAShr, xv, c2)
			}
			return tc.Bin(OpLShr, xv, c2)
		case token.EQL:
			return tc.Eq(xv, yv)
		case token.NEQ:
			return tc.Ne(xv, yv)
		case token.LSS:
			if signed {
				return tc.Cmp(OpSLt, xv, yv)
			}
			return tc.Cmp(OpULt, xv, yv)
		case token.LEQ:
			if signed {
				return tc.Cmp(OpSLe, xv, yv)
			}
			return tc.Cmp(OpULe, xv, yv)
		case token.GTR:
			if signed {
				return tc.Cmp(OpSLt, yv, xv)
			}
			return tc.Cmp(OpULt, yv, xv)
		case token.GEQ:
			if signed {
				return tc.Cmp(OpSLe, yv, xv)
			}
			return tc.Cmp(OpULe, yv, xv)
		}
	case Str:
		ys := y.(Str)
		switch op {
		case token.ADD:
			if xv.b == nil && ys.b == nil {
				return Str{s: xv.s + ys.s}
			}
			return p.mkStr(append(append([]*Term{}, p.bytesOf(xv)...), p.bytesOf(ys)...))
		case token.EQL:
			return p.equals(t, xv, ys)
		case token.NEQ:
			return tc.Not(p.equals(t, xv, ys))
		case token.LSS:
			return p.strLess(xv, ys, false)
		case token.LEQ:
			return p.strLess(xv, ys, true)
		case token.GTR:
			return p.strLess(ys, xv, false)
		case token.GEQ:
			return p.strLess(ys, xv, true)
		}
	case float64:
		yf := y.(float64)
		switch op {
		case token.ADD:
			return xv + yf
		case token.SUB:
			return xv - yf
		case token.MUL:
			return xv * yf
		case token.QUO:
			return xv / yf
		case token.EQL:
			return tc.Bool(xv == yf)
		case token.NEQ:
			return tc.Bool(xv != yf)
		case token.LSS:
			return tc.Bool(xv < yf)
		case token.LEQ:
			return tc.Bool(xv <= yf)
		case token.GTR:
			return tc.Bool(xv > yf)
		case token.GEQ:
			return tc.Bool(xv >= yf)
		}
	}
	switch op {
	case token.EQL:
		return fr.eqGeneric(t, x, y)
	case token.NEQ:
		return tc.Not(fr.eqGeneric(t, x, y))
	}
	panic(unsupported{fmt.Sprintf("binop %v on %T (%v)", op, x, t)})
}

// eqGeneric handles == on pointers, interfaces, channels, funcs (vs nil),
// structs, arrays, maps/slices (vs nil).
func (fr *frame) eqGeneric(t types.Type, x, y value) *Term {
	p := fr.p
	// comparisons against nil of nillable kinds
	switch t.Underlying().(type) {
	case *types.Slice, *types.Map, *types.Signature:
		return p.tc.Bool(isNilValue(x) && isNilValue(y) || (isNilValue(x) == isNilValue(y) && sameRef(x, y)))
	}
	return p.equals(t, x, y)
}

func sameRef(x, y value) bool {
	switch x := x.(type) {
	case *smap:
		yy, ok := y.(*smap)
		return ok && x == yy
	case *closure:
		yy, ok := y.(*closure)
		return ok && x == yy
	case *ssa.Function:
		yy, ok := y.(*ssa.Function)
		return ok && x == yy
	}
	return false
}

// strLess builds x < y (or x <= y) lexicographically.
func (p *Path) strLess(x, y Str, orEq bool) *Term {
	tc := p.tc
	if x.b == nil && y.b == nil {
		if orEq {
			return tc.Bool(x.s <= y.s)
		}
		return tc.Bool(x.s < y.s)
	}
	xb, yb := p.bytesOf(x), p.bytesOf(y)
	n := len(xb)
	if len(yb) < n {
		n = len(yb)
	}
	// result when the common prefix is equal
	var r *Term
	if orEq {
		r = tc.Bool(len(xb) <= len(yb))
	} else {
		r = tc.Bool(len(xb) < len(yb))
	}
	for i := n - 1; i >= 0; i-- {
		r = tc.Ite(tc.Eq(xb[i], yb[i]), r, tc.Cmp(OpULt, xb[i], yb[i]))
	}
	return r
}

// ---- unop ----------------------------------------------------------------------

func (fr *frame) unop(instr *ssa.UnOp, x value) value {
	p := fr.p
	switch instr.Op {
	case token.ARROW: // receive
		ch := x.(*schan)
		_, v, ok := fr.g.selectOp([]selCase{{ch: ch}}, false, "recv", instr.Pos())
		if v == nil {
			v = p.zero(instr.X.Type().Underlying().(*types.Chan).Elem())
		}
		if instr.CommaOk {
			return tuple{v, p.tc.Bool(ok)}
		}
		return v
	case token.SUB:
		switch x := x.(type) {
		case *Term:
			return p.tc.Neg(x)
		case float64:
			return -x
		}
	case token.MUL:
		addr := x.(*value)
		p.access(fr, addr, false, instr.Pos())
		return load(addr)
	case token.NOT:
		return p.tc.Not(x.(*Term))
	case token.XOR:
		return p.tc.BNot(x.(*Term))
	}
	panic(unsupported{fmt.Sprintf("unop %v on %T", instr.Op, x)})
}

// ---- conversions ----------------------------------------------------------------

func (fr *frame) conv(tdst, tsrc types.Type, x value) value {
	p := fr.p
	ud, us := tdst.Underlying(), tsrc.Underlying()
	// integer <-> integer
	if wd, _, okd := intInfo(ud); okd {
		if _, ss, oks := intInfo(us); oks {
			return p.ext(x.(*Term), ss, wd)
		}
		if isFloat(us) {
			return p.tc.BV(wd, uint64(int64(x.(float64))))
		}
		if b, ok := us.(*types.Basic); ok && b.Kind() == types.UnsafePointer {
			panic(unsupported{"unsafe.Pointer -> uintptr"})
		}
	}
	if isFloat(ud) {
		if _, ss, oks := intInfo(us); oks {
			t := x.(*Term)
			if !t.IsConst() {
				panic(unsupported{"symbolic int -> float"})
			}
			if ss {
				return float64(sext64(t.val, t.w))
			}
			return float64(t.val)
		}
		if isFloat(us) {
			if b := ud.(*types.Basic); b.Kind() == types.Float32 {
				return float64(float32(x.(float64)))
			}
			return x
		}
	}
	if isString(ud) {
		switch us := us.(type) {
		case *types.Basic:
			if us.Info()&types.IsString != 0 {
				return x
			}
			if _, _, ok := intInfo(us); ok {
				t := x.(*Term)
				if !t.IsConst() {
					panic(unsupported{"string(symbolic rune)"})
				}
				return Str{s: string(rune(sext64(t.val, t.w)))}
			}
		case *types.Slice:
			el := us.Elem().Underlying().(*types.Basic)
			xs := x.([]value)
			switch el.Kind() {
			case types.Uint8:
				b := make([]*Term, len(xs))
				for i, e := range xs {
					b[i] = e.(*Term)
				}
				return p.mkStr(b)
			case types.Int32:
				rs := make([]rune, len(xs))
				for i, e := range xs {
					rs[i] = rune(concInt(e, "rune in string([]rune)"))
				}
				return Str{s: string(rs)}
			}
		}
	}
	if sl, ok := ud.(*types.Slice); ok && isString(us) {
		s := x.(Str)
		el := sl.Elem().Underlying().(*types.Basic)
		switch el.Kind() {
		case types.Uint8:
			bs := p.bytesOf(s)
			r := make([]value, len(bs))
			for i, b := range bs {
				r[i] = b
			}
			return r
		case types.Int32:
			c, ok := s.Concrete()
			if !ok {
				panic(unsupported{"[]rune(symbolic string)"})
			}
			rs := []rune(c)
			r := make([]value, len(rs))
			for i, b := range rs {
				r[i] = p.tc.BV(32, uint64(b))
			}
			return r
		}
	}
	if _, ok := ud.(*types.Pointer); ok {
		if _, ok := us.(*types.Pointer); ok {
			return x
		}
	}
	if b, ok := ud.(*types.Basic); ok && b.Kind() == types.UnsafePointer {
		panic(unsupported{"conversion to unsafe.Pointer"})
	}
	panic(unsupported{fmt.Sprintf("conversion %v -> %v", tsrc, tdst)})
}

// ---- slices ---------------------------------------------------------------------

func (fr *frame) makeSlice(instr *ssa.MakeSlice) value {
	p := fr.p
	lt := fr.get(instr.Len).(*Term)
	ct := fr.get(instr.Cap).(*Term)
	et := instr.Type().Underlying().(*types.Slice).Elem()
	ln := fr.allocLen(lt, instr.Pos())
	cp := ln
	if ct != lt {
		cp = fr.allocLen(ct, instr.Pos())
	}
	if ln < 0 || cp < ln {
		panic(runtimePanic{"makeslice: len out of range"})
	}
	s := make([]value, cp)
	for i := range s {
		s[i] = p.zero(et)
	}
	return s[:ln]
}

// allocLen turns a (possibly symbolic) allocation length into a concrete one.
// A symbolic length is first handed to the allocation monitor (if the harness
// installed one), then case-split over 0..AllocCap; larger values are cut and
// recorded as outside the bound.
func (fr *frame) allocLen(t *Term, pos token.Pos) int {
	p := fr.p
	if t.IsConst() {
		n := sext64(t.val, t.w)
		if n < 0 {
			panic(runtimePanic{"makeslice: len out of range"})
		}
		if n > int64(p.cfg.MaxConcreteAlloc) {
			if lim, ok := p.ghost["alloc-limit"]; ok {
				l := concInt(lim, "alloc limit")
				p.assertCond(p.tc.Bool(n <= l), "alloc-bounded", pos)
			}
			p.end(stCut, fmt.Sprintf("concrete allocation of %d elements exceeds engine limit", n))
		}
		return int(n)
	}
	x := p.ext(t, true, 64)
	if p.branch(p.tc.Cmp(OpSLt, x, p.intConst(0))) {
		panic(runtimePanic{"makeslice: len out of range"})
	}
	if lim, ok := p.ghost["alloc-limit"]; ok {
		// allocation monitor: the requested size must not exceed the limit
		p.assertCond(p.tc.Cmp(OpSLe, x, lim.(*Term)), "alloc-bounded", pos)
	}
	capN := int64(p.cfg.AllocCap)
	if !p.branch(p.tc.Cmp(OpSLe, x, p.intConst(capN))) {
		p.note("cut: symbolic allocation larger than alloc cap")
		p.end(stCut, fmt.Sprintf("symbolic allocation length > %d (outside bound)", capN))
	}
	return int(p.concretize(x, true, 0, capN))
}

func (fr *frame) sliceOp(instr *ssa.Slice, x, lo, hi, max value) value {
	p := fr.p
	conc := func(v value, def int, limit int) int {
		if v == nil {
			return def
		}
		t := v.(*Term)
		if t.IsConst() {
			return int(sext64(t.val, t.w))
		}
		x := p.ext(t, true, 64)
		ok := p.tc.And(p.tc.Cmp(OpSLe, p.intConst(0), x), p.tc.Cmp(OpSLe, x, p.intConst(int64(limit))))
		if !p.branch(ok) {
			panic(runtimePanic{"slice bounds out of range [symbolic]"})
		}
		return int(p.concretize(x, true, 0, int64(limit)))
	}
	switch x := x.(type) {
	case Str:
		n := x.Len()
		h := conc(hi, n, n)
		l := conc(lo, 0, n)
		if l < 0 || h > n || l > h {
			panic(runtimePanic{fmt.Sprintf("slice bounds out of range [%d:%d] with length %d", l, h, n)})
		}
		if x.b == nil {
			return Str{s: x.s[l:h]}
		}
		return p.mkStr(x.b[l:h])
	case []value:
		c := cap(x)
		h := conc(hi, len(x), c)
		m := conc(max, c, c)
		l := conc(lo, 0, c)
		if l < 0 || h > m || l > h || m > c {
			panic(runtimePanic{fmt.Sprintf("slice bounds out of range [%d:%d:%d] with capacity %d", l, h, m, c)})
		}
		if x == nil {
			return []value(nil)
		}
		return x[l:h:m]
	case *value:
		if x == nil {
			panic(runtimePanic{"invalid memory address or nil pointer dereference"})
		}
		a := []value((*x).(array))
		c := len(a)
		h := conc(hi, c, c)
		m := conc(max, c, c)
		l := conc(lo, 0, c)
		if l < 0 || h > m || l > h || m > c {
			panic(runtimePanic{"slice bounds out of range"})
		}
		return a[l:h:m]
	}
	panic(unsupported{fmt.Sprintf("slice of %T", x)})
}

// ---- lookup / range -------------------------------------------------------------

func (fr *frame) lookup(instr *ssa.Lookup, x, idx value) value {
	p := fr.p
	switch x := x.(type) {
	case *smap:
		var v value
		var ok bool
		if x != nil {
			v, ok = x.lookup(p, idx)
		}
		if !ok {
			v = p.zero(instr.X.Type().Underlying().(*types.Map).Elem())
		}
		if instr.CommaOk {
			return tuple{copyVal(v), p.tc.Bool(ok)}
		}
		return copyVal(v)
	case Str:
		_, signed, _ := intInfo(instr.Index.Type())
		i := fr.index(idx.(*Term), signed, x.Len())
		return p.bytesOf(x)[i]
	}
	panic(unsupported{fmt.Sprintf("lookup in %T", x)})
}

type iter interface {
	next(fr *frame) tuple
}

type stringIter struct {
	s   string
	pos int
}

func (it *stringIter) next(fr *frame) tuple {
	tc := fr.p.tc
	if it.pos >= len(it.s) {
		return tuple{tc.False(), tc.BV(64, 0), tc.BV(32, 0)}
	}
	r, sz := utf8.DecodeRuneInString(it.s[it.pos:])
	i := it.pos
	it.pos += sz
	return tuple{tc.True(), tc.BV(64, uint64(i)), tc.BV(32, uint64(r))}
}

// symStringIter ranges over a string with symbolic bytes: each step forks on
// whether the next byte is ASCII; non-ASCII sequences are decoded only when
// concrete, otherwise the path is cut as unsupported.
type symStringIter struct {
	b   []*Term
	pos int
}

func (it *symStringIter) next(fr *frame) tuple {
	p := fr.p
	tc := p.tc
	if it.pos >= len(it.b) {
		return tuple{tc.False(), tc.BV(64, 0), tc.BV(32, 0)}
	}
	c := it.b[it.pos]
	if p.branch(tc.Cmp(OpULt, c, tc.BV(8, 0x80))) {
		i := it.pos
		it.pos++
		return tuple{tc.True(), tc.BV(64, uint64(i)), tc.ZExt(c, 32)}
	}
	// non-ASCII lead byte: need concrete bytes to decode
	var buf []byte
	for j := it.pos; j < len(it.b) && j < it.pos+4; j++ {
		if !it.b[j].IsConst() {
			break
		}
		buf = append(buf, byte(it.b[j].val))
	}
	if len(buf) == 0 {
		panic(unsupported{"range over string with symbolic non-ASCII byte"})
	}
	if !utf8.FullRune(buf) && len(buf) < len(it.b)-it.pos && len(buf) < 4 {
		panic(unsupported{"range over string with symbolic non-ASCII sequence"})
	}
	r, sz := utf8.DecodeRune(buf)
	i := it.pos
	it.pos += sz
	return tuple{tc.True(), tc.BV(64, uint64(i)), tc.BV(32, uint64(r))}
}

func (fr *frame) rangeIter(x value, t types.Type) iter {
	switch x := x.(type) {
	case *smap:
		// iteration order is explored for loops in grpchan's own code (not in the
		// libraries it calls, nor in harness code)
		explore := fr.p.eng.inRepo(fr.fn) && !fr.p.eng.isHarnessFn(fr.fn)
		return fr.p.newMapIterIn(x, explore)
	case Str:
		if x.b == nil {
			return &stringIter{s: x.s}
		}
		return &symStringIter{b: x.b}
	}
	panic(unsupported{fmt.Sprintf("range over %T", x)})
}

// ---- type assertions ---------------------------------------------------------------

func (fr *frame) typeAssert(instr *ssa.TypeAssert, itf iface) value {
	p := fr.p
	var v value
	err := ""
	if idst, ok := instr.AssertedType.Underlying().(*types.Interface); ok {
		v = itf
		err = p.checkInterface(idst, itf)
	} else if itf.t == nil {
		err = fmt.Sprintf("interface conversion: interface is nil, not %s", instr.AssertedType)
	} else if types.Identical(itf.t, instr.AssertedType) {
		v = itf.v
	} else {
		err = fmt.Sprintf("interface conversion: interface is %s, not %s", itf.t, instr.AssertedType)
	}
	if err != "" {
		if !instr.CommaOk {
			panic(runtimePanic{err})
		}
		return tuple{p.zero(instr.AssertedType), p.tc.False()}
	}
	if instr.CommaOk {
		return tuple{v, p.tc.True()}
	}
	return v
}

func (p *Path) checkInterface(itype *types.Interface, x iface) string {
	if x.t == nil {
		return "interface conversion: interface is nil"
	}
	if isFakeType(x.t) {
		return "" // reflect.Type, codec
	}
	if meth, _ := types.MissingMethod(x.t, itype, true); meth != nil {
		return fmt.Sprintf("interface conversion: %v is not %v: missing method %s", x.t, itype, meth.Name())
	}
	return ""
}

// ---- builtins -----------------------------------------------------------------------

func (fr *frame) callBuiltin(callpos token.Pos, fn *ssa.Builtin, args []value) value {
	p := fr.p
	tc := p.tc
	switch fn.Name() {
	case "append":
		if len(args) == 1 {
			return args[0]
		}
		if s, ok := args[1].(Str); ok {
			// append([]byte, string...)
			bs := p.bytesOf(s)
			x := args[0].([]value)
			for _, b := range bs {
				x = append(x, b)
			}
			return x
		}
		x := args[0].([]value)
		y := args[1].([]value)
		if len(y) == 0 {
			return x
		}
		for _, e := range y {
			x = append(x, copyVal(e))
		}
		return x

	case "copy":
		dst := args[0].([]value)
		if s, ok := args[1].(Str); ok {
			bs := p.bytesOf(s)
			n := len(bs)
			if len(dst) < n {
				n = len(dst)
			}
			for i := 0; i < n; i++ {
				dst[i] = bs[i]
			}
			return tc.BV(64, uint64(n))
		}
		src := args[1].([]value)
		n := len(src)
		if len(dst) < n {
			n = len(dst)
		}
		// overlapping-safe copy
		tmp := make([]value, n)
		for i := 0; i < n; i++ {
			tmp[i] = copyVal(src[i])
		}
		copy(dst, tmp)
		return tc.BV(64, uint64(n))

	case "close":
		fr.g.closeChan(args[0].(*schan), callpos)
		return nil

	case "delete":
		m := args[0].(*smap)
		if m != nil {
			m.delete(p, args[1])
		}
		return nil

	case "print", "println":
		return nil

	case "len":
		switch x := args[0].(type) {
		case Str:
			return tc.BV(64, uint64(x.Len()))
		case array:
			return tc.BV(64, uint64(len(x)))
		case *value:
			return tc.BV(64, uint64(len((*x).(array))))
		case []value:
			return tc.BV(64, uint64(len(x)))
		case *smap:
			if x == nil {
				return tc.BV(64, 0)
			}
			return tc.BV(64, uint64(len(x.ents)))
		case *schan:
			if x == nil {
				return tc.BV(64, 0)
			}
			return tc.BV(64, uint64(len(x.buf)))
		}
		panic(unsupported{fmt.Sprintf("len of %T", args[0])})

	case "cap":
		switch x := args[0].(type) {
		case array:
			return tc.BV(64, uint64(len(x)))
		case *value:
			return tc.BV(64, uint64(len((*x).(array))))
		case []value:
			return tc.BV(64, uint64(cap(x)))
		case *schan:
			if x == nil {
				return tc.BV(64, 0)
			}
			return tc.BV(64, uint64(x.cap))
		}
		panic(unsupported{fmt.Sprintf("cap of %T", args[0])})

	case "min", "max":
		r := args[0].(*Term)
		sig := fn.Type().(*types.Signature)
		_, signed, _ := intInfo(sig.Params().At(0).Type())
		for _, a := range args[1:] {
			at := a.(*Term)
			var lt *Term
			if signed {
				lt = tc.Cmp(OpSLt, at, r)
			} else {
				lt = tc.Cmp(OpULt, at, r)
			}
			if fn.Name() == "min" {
				r = tc.Ite(lt, at, r)
			} else {
				r = tc.Ite(lt, r, at)
			}
		}
		return r

	case "panic":
		panic(targetPanic{args[0], callpos, fr.stack()})

	case "recover":
		return fr.doRecover()

	case "ssa:wrapnilchk":
		recv := args[0]
		if ptr, ok := recv.(*value); ok && ptr == nil {
			recvType := args[1].(Str).s
			methodName := args[2].(Str).s
			panic(runtimePanic{fmt.Sprintf("value method %s.%s called using nil *%s pointer", recvType, methodName, recvType)})
		}
		return recv

	case "clear":
		switch x := args[0].(type) {
		case *smap:
			if x != nil {
				x.ents = nil
			}
		case []value:
			for i := range x {
				x[i] = nil
			}
			panic(unsupported{"clear(slice)"})
		}
		return nil
	}
	panic(unsupported{"builtin " + fn.Name()})
}
