#!/bin/bash
# usage: verify_mutant.sh <prop> <n> <pkgdir (. for root)> <run-regex>
# Confirms a seeded change in its scratch worktree /tmp/wt-<prop>: suite passes with
# it, demo fails with it, demo passes without it. Then runs the property's check
# against /repo with the change applied, and stores everything under /verif/seeded.
export GOFLAGS=-mod=mod GOPROXY=off GOSUMDB=off GOTOOLCHAIN=local
prop=$1; n=$2; dir=$3; re=$4; tier=${5:-quick}
wt=${WTPREFIX:-/tmp/wt-}$prop; m=$wt/MUTANT_$n; out=/verif/seeded/$prop-${SEEDTAG:-}$n
mkdir -p $out
cd $wt || exit 2
git checkout -q -- . ; git apply --check $m/patch.diff || { echo "patch does not apply"; exit 2; }
demo=$dir/zz_seeded_demo_test.go
cp $m/demo_test.go.txt $demo
r_without=$(go test -vet=off -count=1 -run "$re" ./$dir 2>&1 | tail -3 | tr '\n' ' ')
git apply $m/patch.diff
build=$(go build ./... 2>&1 | tail -3)
r_with=$(go test -vet=off -count=1 -run "$re" ./$dir 2>&1 | tail -5 | tr '\n' ' ')
rm -f $demo
suite=$(go test -vet=off -count=1 ./... 2>&1 | grep -v "no test files" | tr '\n' ' ')
git checkout -q -- .
echo "demo without: $r_without"; echo "demo with: $r_with"; echo "suite with: $suite"
# run the check against the tree with the change applied. By default this is the
# mutant's own scratch worktree (same commit as /repo) so that several mutants can be
# examined while other work goes on; with MUTANT_ON_REPO=1 the patch is applied to
# /repo itself (git -C /repo apply) and undone straight afterwards.
t0=$(date +%s)
where=worktree
if [ -n "$MUTANT_ON_REPO" ] && git -C /repo apply --check $m/patch.diff 2>/dev/null; then
  where=repo
fi
if [ "$where" = repo ]; then
  cd /repo && git apply $m/patch.diff || { echo "cannot apply to /repo"; exit 2; }
  chk=$(cd /verif && GOSYM_OUT=/tmp/mutant-evidence-$prop-$n.json timeout 1800 bash check.sh $prop $tier 2>&1 | grep -v "^gosym: [0-9]*s" | tail -12)
  git -C /repo checkout -- .
else
  cd $wt && git apply $m/patch.diff
  chk=$(cd /verif && GOSYM_REPO=$wt GOSYM_OUT=/tmp/mutant-evidence-$prop-$n.json timeout 1800 bash check.sh $prop $tier 2>&1 | grep -v "^gosym: [0-9]*s" | tail -12)
  git -C $wt checkout -q -- .
fi
t1=$(date +%s)
rm -f /tmp/mutant-evidence-$prop-$n.json
echo "$chk"
cp $m/patch.diff $out/patch.diff; cp $m/demo_test.go.txt $out/demo_test.go.txt; cp $m/README.md $out/README.md 2>/dev/null
python3 - "$prop" "$n" "$dir" "$re" "$r_without" "$r_with" "$suite" "$chk" "$((t1-t0))" "$tier" "$where" "$(git -C $wt rev-parse --short HEAD)" "$(git -C /repo rev-parse --short HEAD)" > $out/meta.json <<'PY'
import json,sys
prop,n,d,re,rw,rwi,suite,chk,secs,tier,where,base,head=sys.argv[1:14]
detected = "VIOLATION property="+prop in chk
print(json.dumps({"property":prop,"mutant":int(n),"demo_dir":d,"demo_run":re,
 "check_ran_on": ("/repo (git -C /repo apply; undone afterwards) at "+head) if where=="repo" else ("scratch worktree of /repo at "+base+" with the patch applied (the patch does not apply to /repo HEAD "+head+", or worktree mode was requested)"),
 "confirmed":{"demo_without_change":rw.strip(),"demo_with_change":rwi.strip(),"suite_with_change":suite.strip()},
 "check_tier":tier,"check_seconds":int(secs),"detected_by_check":detected,"check_output_tail":chk.splitlines()[-8:]},indent=1))
PY
grep -o '"detected_by_check": [a-z]*' $out/meta.json
