#!/bin/bash
# usage: verify_mutant.sh <prop> <n> <pkgdir (. for root)> <run-regex> [tier]
# env: WTPREFIX (where the sub-agent's worktree with MUTANT_<n>/ lives, default /tmp/wt-),
#      SEEDTAG (prefix of the seeded/ directory index), MUTANT_ON_REPO=1 (apply the
#      patch to /repo itself for the check run and undo it straight afterwards).
# Confirms a seeded change against the CURRENT /repo HEAD where its patch still
# applies (in a throw-away worktree of HEAD; otherwise on the base it was written
# for): suite passes with it, demo fails with it, demo passes without it. Then runs
# the property's check on the changed tree and stores everything under /verif/seeded.
export GOFLAGS=-mod=mod GOPROXY=off GOSUMDB=off GOTOOLCHAIN=local
prop=$1; n=$2; dir=$3; re=$4; tier=${5:-quick}
src=${WTPREFIX:-/tmp/wt-}$prop; m=$src/MUTANT_$n; out=/verif/seeded/$prop-${SEEDTAG:-}$n
mkdir -p $out
head=$(git -C /repo rev-parse --short HEAD)
wt=/tmp/mutant-head-$prop-$n-$$
git -C /repo worktree add -q --detach $wt HEAD || exit 2
base=$head; onhead=yes
if ! git -C $wt apply --check $m/patch.diff 2>/dev/null; then
  # the patch was written against an older base and conflicts with later fix commits
  git -C /repo worktree remove --force $wt
  wt=$src; onhead=no; base=$(git -C $src rev-parse --short HEAD)
  git -C $wt checkout -q -- .
fi
cd $wt || exit 2
demo=$dir/zz_seeded_demo_test.go
cp $m/demo_test.go.txt $demo
r_without=$(go test -vet=off -count=1 -run "$re" ./$dir 2>&1 | tail -3 | tr '\n' ' ')
git apply $m/patch.diff
go build ./... 2>&1 | tail -3
r_with=$(go test -vet=off -count=1 -run "$re" ./$dir 2>&1 | tail -5 | tr '\n' ' ')
rm -f $demo
suite=$(go test -vet=off -count=1 ./... 2>&1 | grep -v "no test files" | tr '\n' ' ')
echo "demo without: $r_without"; echo "demo with: $r_with"; echo "suite with: $suite"
t0=$(date +%s)
where="scratch worktree of /repo at $base with the patch applied"
if [ -n "$MUTANT_ON_REPO" ] && [ $onhead = yes ]; then
  git -C /repo apply $m/patch.diff || exit 2
  where="/repo at $head (git -C /repo apply; undone straight afterwards)"
  chk=$(cd /verif && GOSYM_OUT=/tmp/mutant-evidence-$prop-$n.json timeout 1800 bash check.sh $prop $tier 2>&1 | grep -v "^gosym: [0-9]*s" | tail -12)
  git -C /repo checkout -- .
else
  chk=$(cd /verif && GOSYM_REPO=$wt GOSYM_OUT=/tmp/mutant-evidence-$prop-$n.json timeout 1800 bash check.sh $prop $tier 2>&1 | grep -v "^gosym: [0-9]*s" | tail -12)
fi
t1=$(date +%s)
rm -f /tmp/mutant-evidence-$prop-$n.json
git -C $wt checkout -q -- . 2>/dev/null
cd /verif
if [ $onhead = yes ]; then git -C /repo worktree remove --force $wt; fi
echo "$chk"
cp $m/patch.diff $out/patch.diff; cp $m/demo_test.go.txt $out/demo_test.go.txt; cp $m/README.md $out/README.md 2>/dev/null
python3 - "$prop" "$n" "$dir" "$re" "$r_without" "$r_with" "$suite" "$chk" "$((t1-t0))" "$tier" "$where" "$onhead" "$head" > $out/meta.json <<'PY'
import json,sys
prop,n,d,re,rw,rwi,suite,chk,secs,tier,where,onhead,head=sys.argv[1:14]
detected = "VIOLATION property="+prop in chk
breaks = ('FAIL' in rwi) and rw.strip().startswith('ok') and ('FAIL' not in suite)
print(json.dumps({"property":prop,"mutant":int(n),"demo_dir":d,"demo_run":re,
 "confirmed_against": ("current /repo HEAD "+head) if onhead=="yes" else "the base the patch was written for (it conflicts with later fix commits in /repo)",
 "confirmed":{"demo_without_change":rw.strip(),"demo_with_change":rwi.strip(),"suite_with_change":suite.strip()},
 "breaks_property_on_that_tree": breaks,
 "check_ran_on":where,"check_tier":tier,"check_seconds":int(secs),"detected_by_check":detected,"check_output_tail":chk.splitlines()[-8:]},indent=1))
PY
grep -o '"detected_by_check": [a-z]*\|"breaks_property_on_that_tree": [a-z]*' $out/meta.json | tr '\n' ' '; echo
