#!/usr/bin/env python3
"""Regenerates /verif/seeded/SUMMARY.md from the meta.json files."""
import json, glob, os
rows=[]
for f in sorted(glob.glob('/verif/seeded/*/meta.json')):
    m=json.load(open(f))
    d=os.path.basename(os.path.dirname(f))
    c=m['confirmed']
    ok = m.get('breaks_property_on_that_tree', ('FAIL' in c['demo_with_change']) and c['demo_without_change'].startswith('ok') and 'FAIL' not in c['suite_with_change'])
    note = m.get('note','')
    try:
        note = open(os.path.dirname(f)+'/NOTE.txt').read().strip()
    except Exception:
        pass
    rows.append((d, m['property'], ('yes' if ok else 'NO') + ' (' + m.get('confirmed_against','?').replace('current /repo HEAD','HEAD') + ')', 'detected' if m['detected_by_check'] else 'missed', m.get('check_tier','quick'), m.get('check_seconds','?'), note))
with open('/verif/seeded/SUMMARY.md','w') as o:
    o.write('# Seeded changes\n\nEach directory holds patch.diff, demo_test.go.txt, README.md (the sub-agent\'s description) and meta.json (what was run here and what was observed).\n\n')
    o.write('| change | property | confirmed (suite passes, demo fails with / passes without) | check result | tier | seconds | note |\n|---|---|---|---|---|---|---|\n')
    for r in rows: o.write('| '+' | '.join(str(x) for x in r)+' |\n')
    live=[r for r in rows if r[2].startswith('yes')]
    det=sum(1 for r in live if r[3]=='detected')
    o.write(f'\n{det} of {len(live)} changes that break their property on the tree they were confirmed against are detected by the registered checks ({len(rows)-len(live)} changes no longer break it on the current tree).\n')
print(open('/verif/seeded/SUMMARY.md').read())
