#!/bin/bash
# runs every claimed check once (quick tier by default) and prints a summary line each
tier=${1:-quick}
cd /verif
for p in $(python3 -c "import json;print(' '.join(c['property_id'] for c in json.load(open('MANIFEST.json'))['checks']))"); do
  t0=$(date +%s)
  out=$(timeout 1800 bash check.sh $p $tier 2>&1 | grep -v "^gosym: [0-9]*s")
  code=$?
  t1=$(date +%s)
  echo "$p exit=$code secs=$((t1-t0)) :: $(echo "$out" | grep -c VIOLATION) violation-lines, $(echo "$out" | grep -c INCONCLUSIVE) inconclusive :: $(echo "$out" | tail -1)"
done
