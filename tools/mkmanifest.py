#!/usr/bin/env python3
"""Regenerates /verif/MANIFEST.json from the table below (checks claimed) and
properties.jsonl (everything else goes to not_applicable with its reason)."""
import json, sys
props=[json.loads(l) for l in open('/verif/properties.jsonl')]
TECH="bounded symbolic execution of the Go SSA (own engine gosym) + SMT (z3, cvc5 bv-as-int fallback); counterexamples replayed natively"
claimed={
 "C09":dict(design="§7 C09",
   text="Bounded symbolic model checking of the real contextFromHeaders / headersFromContext SSA: every GRPC-Timeout header string up to the stated length (all byte values) and every int64 remaining duration are symbolic; the solver shows on every path that well-formed values give exactly value*unit saturating at MaxInt64 and that the client emits max(1,floor(t/1ms)) milliseconds. Inputs are full-width, so this is stronger than any sampling; it is bounded only in the header length.",
   note="Trusted: the engine's SSA semantics (validated per run by native replay of sampled paths), the context model (records the requested timeout), fmt %d digit encoding, z3/cvc5. Header strings longer than the cap (values with more than 9/11 digits) and transit time are outside the claim."),
 "C14":dict(design="§7 C14",
   text="Bounded symbolic model checking of the real httpStatusFromCode / codeFromHttpStatus / statFromResponse SSA with the code (2^32 values), the HTTP status (all ints) and the status message bytes symbolic; the expected table is parsed from DefaultErrorRenderer's doc comment on every run. The tables are loop-free so the only bound is the message length.",
   note="Trusted: engine SSA semantics, fmt %d digit encoding (Horner relation), net/textproto canonicalisation of concrete keys run natively, z3/cvc5. The renderer's 499 rule and custom renderers are exercised end-to-end under C02/C11 harnesses, not here."),
 "C12":dict(design="§7 C12",
   text="Bounded symbolic model checking of the real name-resolution code: in-process Invoke/NewStream (method[0], SplitN, HandlerMap lookup, FindUnaryMethod/FindStreamingMethod) with the method name an arbitrary byte string up to the cap on both entry points, and the HTTP client/server path construction (path.Join real SSA on both sides, Server.RegisterService and HandleServices) with symbolic base path and method name. Every path shows: a handler runs iff the name is exactly its own and the entry point matches; otherwise a status error (Unimplemented / NotFound) and no handler; run-time panics are implicit assertions.",
   note="Trusted: engine SSA semantics, context model, protobuf structural stubs, ServeMux = exact match, URL escaping assumed to round-trip (not modelled). Names/base paths longer than the cap, ServeMux pattern syntax and escaping are outside the claim. Schedules: non-preemptive only (name resolution is sequential)."),
 "C17":dict(design="§7 C17",
   text="Bounded symbolic model checking of InterceptClientConn / interceptedChannel: wrapping depth, nil-ness of each interceptor per layer, forwarding vs short-circuiting, base channel kind, unary vs stream call and the method name are symbolic; assertions: every applicable interceptor exactly once outermost first, arguments and results unchanged, nil/nil returns the argument, Unwrap returns the wrapped channel, cc is the underlying *grpc.ClientConn at any depth.",
   note="Trusted: engine SSA semantics. Depth beyond the bound is outside the claim; a zero *grpc.ClientConn stands for a real connection (only its identity matters)."),
 "C16":dict(design="§7 C16",
   text="Bounded symbolic model checking of InterceptServer / WithInterceptor and of the interceptor hand-off in the in-process channel and the HTTP server: descriptor shape, streaming flags, nil-ness and behaviour (forward / short-circuit / fail / rewrite) of every interceptor, decoration depth and carrier are symbolic; the oracle is a recursive reference semantics of the chain (transport first, decorations outermost first, handler iff all forward; results and errors unchanged; FullMethod and flags correct; original description untouched; nil/nil returns the same pointer).",
   note="Trusted: engine SSA semantics, context model, protobuf structural stubs, HTTP hop harness (RoundTripper + recording ResponseWriter, io.Pipe from real SSA). Handlers follow the generated shape. Non-preemptive schedules only (the hand-off is sequential per call)."),
 "C15":dict(design="§7 C15",
   text="Bounded symbolic model checking of HandlerMap.RegisterService / QueryService / ForEach / GetServiceInfo: operation sequences, service names, handler typing (well-typed, wrong type, nil), descriptor shapes and streaming flags are symbolic; after every operation the complete observable state is compared with a reference association list; duplicate and ill-typed registrations must panic and leave the state unchanged; Go map iteration order is explored exhaustively.",
   note="Trusted: engine SSA semantics, reflect modelled over go/types. The grpc.Server parity clause is checked against grpc's documented GetServiceInfo behaviour, not by running a grpc.Server. Sequences longer than the bound are outside the claim."),
 "C13":dict(design="§7 C13",
   text="Bounded symbolic model checking of ApplyPerRPCCreds, GetCallOptions, getPeer/peerFromRequest and both HTTP entry points up to the first request: scheme, host form, TLS state, unary/streaming, presence and behaviour of the credentials (metadata overlapping or not, empty, error, requires security) and caller metadata are symbolic choices; assertions: a secure-only credential on a non-https base URL fails with zero requests issued; otherwise the handler sees caller metadata followed by credential metadata per key; peer address as documented; AuthInfo present iff the connection uses TLS for unary and streaming alike.",
   note="Trusted: engine SSA semantics, HTTP hop harness (the connection's TLS state appears on the response and on the server's request, as with net/http), context model, protobuf codec intrinsic. Metadata values are concrete here (value fidelity is C03's subject)."),
 "C07":dict(design="§7 C07",
   text="Bounded symbolic model checking of the real stream decoders (readSizePreface, readProtoMessage, doHttpCall's read loop, clientStream.RecvMsg, serverStream.RecvMsg): the body is an arbitrary byte string up to the cap (so every 32-bit length prefix is covered), ending cleanly or abruptly; an allocation monitor asserts size <= maxMessageSize at every input-dependent make; delivered messages are compared with a reference frame splitter (no fabrication, intact prefix); success requires a complete OK trailer; plus a well-formed response cut at every byte offset must be a failed call. Panics are implicit assertions.",
   note="Trusted: engine SSA semantics, protobuf wire codec intrinsic (real wire format for the generated structs; unknown fields skipped as the runtime does), context model, io.Pipe/io.ReadAtLeast/binary.Read from real SSA. Bodies longer than the cap are outside the claim; allocations larger than the alloc cap are checked against the limit but not followed further."),
 "C11":dict(design="§7 C11",
   text="Bounded symbolic model checking of the real handleMethod / handleStream closures with a recording ResponseWriter: HTTP method string, Content-Type (concrete values through the real mime parser plus symbolic parameter-less values at the lengths where a supported type can occur), a -bin header (real base64 rules as terms), GRPC-Timeout and the body bytes are symbolic, one dimension at a time plus all together at a smaller bound. Assertions: handler at most once and only for POST + supported media type + decodable headers, else 405/415/400 without running application code; undecodable unary body => InvalidArgument; the recorded streaming reply is data frames followed by exactly one decodable trailer frame; panics are implicit assertions.",
   note="Trusted: engine SSA semantics; mime/base64/protobuf-wire intrinsics (validated per run against the native build on sampled paths); http.Error and Header from real SSA. Not covered: 404 routing (ServeMux, see C12), JSON body equivalence (protojson not modelled; only codec selection), trailers that cannot be encoded (non-UTF-8, see the C02/C03 finding). The cross product of all dimensions is explored only at the smaller 'all' bound."),
 "C04":dict(design="§7 C04",
   text="Bounded symbolic model checking of the real call paths (in-process Invoke/NewStream/readMessage/writeMessage and stream methods; HTTP Invoke, doHttpCall, RecvMsg, handleMethod/handleStream) with the engine's own goroutine scheduler: the cancellation or deadline instant is an environment event that may occur at every scheduling point; handler behaviour (responds, honours its context, fails, returns a context error) and RPC kind are symbolic choices. Every explored schedule must end in the complete real result, the matching Canceled/DeadlineExceeded status, or the handler's own status: never nil/io.EOF with missing data, never a non-status error; deadlock and goroutine-leak verdicts come from the scheduler. Concurrent counterexamples are confirmed by schedule-pinned native replay.",
   note="Trusted: engine SSA semantics and scheduler (scheduling points = visible operations), the context model (incl. asynchronous propagation through grpchan's noValuesContext), sync objects, protobuf stubs, the HTTP hop harness. Schedules beyond the pre-emption / delay bound, wall-clock promptness, GC finalisers and net/http's own disconnect detection are outside the claim."),
 "C20":dict(design="§7 C20",
   text="Bounded symbolic model checking of in-process stream sends with a stalled receiver, using the scheduler's quiescence verdict (no other goroutine can take a step): at most one send per direction completes (a pending header frame occupies the same slot), the next send is blocked but not failed, and it completes when the peer receives, when the handler returns, or when the context ends; all schedules within the pre-emption bound.",
   note="Trusted: engine SSA semantics and scheduler, context model, protobuf clone stub. Number of attempted sends and pre-emptions bounded as stated."),
 "C10":dict(design="§7 C10",
   text="Bounded symbolic model checking of makeServerContext / noValuesContext / ClientContext and the context plumbing of in-process Invoke and NewStream: the caller's context is a chain of WithValue layers whose key kinds are symbolic choices (string, struct, pointer, and the keys gRPC itself uses for incoming metadata and the server transport stream), with outgoing metadata (symbolic value, repeated key, -bin value) and an optional deadline; inside the handler every caller value must be invisible, incoming metadata must equal the caller's outgoing metadata, peer and deadline must be right, ClientContext must expose the caller's values, and mutating the handler's metadata copy must not reach the caller.",
   note="Trusted: engine SSA semantics, context model, grpc metadata/peer packages run from real SSA. Chains longer than the bound are outside the claim; the abstract clock may fire the deadline during the call, those paths are cut here (deadline behaviour is C04's subject)."),
 "C18":dict(design="§7 C18",
   text="Bounded symbolic model checking of grpchan's cloner adapters (ProtoCloner, CodecCloner, CloneFunc, CopyFunc, funcCloner, internal.CopyMessage/CloneMessage) on the generated test Message with symbolic bytes, scalars, an optional map entry and nested Any values: the copy equals the source with no residue of the destination's previous content, the source is unchanged, later mutation of either side is invisible to the other, and a destination of another message type or a pointer to a non-protobuf value is refused with an error.",
   note="Claimed for the adapters' own composition logic only. proto.Clone, dynamic.TryMerge, generated Reset and the codec are contract stubs over the generated structs (structural deep copy, proto3 merge, zeroing, real wire format); the correctness of the protobuf runtime and protoreflect/dynamic themselves, dynamic messages, unknown fields and maps of messages are assumed, not checked."),
}
pending_reason="check not built yet (engine layers under construction); see DESIGN.md §9"
na={}
checks=[]
for p in props:
    pid=p["id"]
    if pid in claimed:
        c=claimed[pid]
        checks.append({"property_id":pid,
          "quick_cmd":f"bash /verif/check.sh {pid} quick",
          "thorough_cmd":f"bash /verif/check.sh {pid} thorough",
          "evidence_file":f"/verif/evidence/{pid}.json",
          "replay_cmd_template":f"bash /verif/check.sh {pid} quick -replay {{path}}",
          "engine":"gosym",
          "level_claimed":{"category":"model_checking","text":c["text"],"design_ref":c["design"]},
          "level_note":c["note"],
          "technique":TECH})
    else:
        na[pid]=pending_reason
m={"version":1,
 "setup_cmd":"bash /verif/setup.sh",
 "hooks":{"guard":"verif","enable":"checks copy /repo's working tree to a scratch directory outside /repo and /verif, add the //go:build verif harness files of /verif/harness/overlay there and load it with -tags verif; /repo itself carries no hook code","baseline_off_cmd":"cd /repo && go test -vet=off -count=1 -timeout 25m ./...","source_commits":[],"add_only":True},
 "engines":[{"name":"gosym","path":"/verif/engine","serves_properties":sorted(claimed),"kind_free_text":"bounded symbolic executor for Go SSA (golang.org/x/tools/go/ssa) with path forking, a goroutine scheduler, and SMT back ends (z3 -in, cvc5 --incremental, cvc5 --solve-bv-as-int=sum); written for this task"}],
 "checks":checks,
 "notes":"Every check rebuilds its encoding from /repo's working tree (rsync to a scratch copy + harness overlay + go/packages + go/ssa). Exit 1 only for a counterexample that reproduced natively; undecided queries, unsupported constructs and non-reproducing counterexamples print INCONCLUSIVE and exit 0.",
 "not_applicable":[{"property_id":k,"reason":v} for k,v in na.items()]}
json.dump(m,open('/verif/MANIFEST.json','w'),indent=1)
print("claimed:",sorted(claimed),"na:",len(na))
