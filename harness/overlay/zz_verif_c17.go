//go:build verif

package grpchan

import (
	"context"
	"errors"
	"fmt"

	"google.golang.org/grpc"

	zv "github.com/fullstorydev/grpchan/internal/zzverif"
)

type verifOpt struct {
	grpc.EmptyCallOption
	id int
}

type verifStream struct {
	grpc.ClientStream
	id int
}

// verifBase is the innermost channel: it records what reaches it.
type verifBase struct {
	invoked, streamed int
	method            string
	req, resp         interface{}
	opts              []grpc.CallOption
	ctx               context.Context
	desc              *grpc.StreamDesc
	err               error
	stream            grpc.ClientStream
}

func (b *verifBase) Invoke(ctx context.Context, method string, req, resp interface{}, opts ...grpc.CallOption) error {
	b.invoked++
	b.ctx, b.method, b.req, b.resp, b.opts = ctx, method, req, resp, opts
	return b.err
}

func (b *verifBase) NewStream(ctx context.Context, desc *grpc.StreamDesc, method string, opts ...grpc.CallOption) (grpc.ClientStream, error) {
	b.streamed++
	b.ctx, b.desc, b.method, b.opts = ctx, desc, method, opts
	return b.stream, b.err
}

type verifC17 struct {
	events   []int // layer index of each interceptor invocation, in order
	wantCC   *grpc.ClientConn
	method   string
	req      interface{}
	resp     interface{}
	opt      grpc.CallOption
	desc     *grpc.StreamDesc
	ctx      context.Context
	shortErr error
	alters   map[int]bool // layers whose interceptor passes a different option and method onward
}

// alter: what an altering interceptor at the given layer passes onward; the
// expectation for the next hop moves with it.
func (c *verifC17) alter(layer int) (string, grpc.CallOption) {
	c.method = c.method + "+"
	c.opt = &verifOpt{id: 100 + layer}
	return c.method, c.opt
}

func verifSameOpts(opts []grpc.CallOption, want grpc.CallOption) bool {
	return len(opts) == 1 && opts[0] == want
}

func (c *verifC17) unary(layer int, forward bool) grpc.UnaryClientInterceptor {
	return func(ctx context.Context, method string, req, reply interface{}, cc *grpc.ClientConn, invoker grpc.UnaryInvoker, opts ...grpc.CallOption) error {
		c.events = append(c.events, layer)
		zv.Assert(cc == c.wantCC, "unary-interceptor-gets-underlying-clientconn")
		zv.Assert(method == c.method, "unary-method-unchanged")
		zv.Assert(req == c.req && reply == c.resp, "unary-messages-unchanged")
		zv.Assert(verifSameOpts(opts, c.opt), "unary-options-unchanged")
		zv.Assert(ctx == c.ctx, "unary-context-unchanged")
		if !forward {
			return c.shortErr
		}
		if c.alters[layer] {
			m2, o2 := c.alter(layer)
			return invoker(ctx, m2, req, reply, cc, o2)
		}
		return invoker(ctx, method, req, reply, cc, opts...)
	}
}

func (c *verifC17) stream(layer int, forward bool) grpc.StreamClientInterceptor {
	return func(ctx context.Context, desc *grpc.StreamDesc, cc *grpc.ClientConn, method string, streamer grpc.Streamer, opts ...grpc.CallOption) (grpc.ClientStream, error) {
		c.events = append(c.events, layer)
		zv.Assert(cc == c.wantCC, "stream-interceptor-gets-underlying-clientconn")
		zv.Assert(method == c.method, "stream-method-unchanged")
		zv.Assert(desc == c.desc, "stream-desc-unchanged")
		zv.Assert(verifSameOpts(opts, c.opt), "stream-options-unchanged")
		zv.Assert(ctx == c.ctx, "stream-context-unchanged")
		if !forward {
			return nil, c.shortErr
		}
		if c.alters[layer] {
			m2, o2 := c.alter(layer)
			return streamer(ctx, desc, cc, m2, o2)
		}
		return streamer(ctx, desc, cc, method, opts...)
	}
}

// Verif_C17_Chain: wrapping depth 1..D, every nil/non-nil combination of the two
// interceptors per layer, base = plain channel or *grpc.ClientConn, every layer
// forwarding or short-circuiting, unary and streaming calls.
func Verif_C17_Chain() {
	maxDepth := zv.Param("depth", 3)
	depth := zv.Choose("depth", maxDepth) + 1
	realCC := zv.Choose("base-is-clientconn", 2) == 1
	isStream := zv.Choose("stream-call", 2) == 1

	base := &verifBase{err: errors.New("base error"), stream: &verifStream{id: 7}}
	c := &verifC17{method: zv.String("method", zv.Param("methodcap", 3)), req: &verifOpt{id: 1}, resp: &verifOpt{id: 2},
		opt: &verifOpt{id: 3}, desc: &grpc.StreamDesc{StreamName: "s"}, ctx: context.WithValue(context.Background(), "k", "v"),
		shortErr: errors.New("short-circuit"), alters: map[int]bool{}}
	var ch grpc.ClientConnInterface = base
	if realCC {
		cc := &grpc.ClientConn{}
		c.wantCC = cc
		ch = cc
	}

	// layers are built innermost (0) first
	hasInt := make([]bool, depth)
	forwards := make([]bool, depth)
	for i := 0; i < depth; i++ {
		hasU := zv.Bool(fmt.Sprintf("unary-int#%d", i))
		hasS := zv.Bool(fmt.Sprintf("stream-int#%d", i))
		fw := zv.Bool(fmt.Sprintf("forwards#%d", i))
		c.alters[i] = zv.Bool(fmt.Sprintf("alters-options#%d", i))
		var ui grpc.UnaryClientInterceptor
		var si grpc.StreamClientInterceptor
		if hasU {
			ui = c.unary(i, fw)
		}
		if hasS {
			si = c.stream(i, fw)
		}
		wrapped := InterceptClientConn(ch, ui, si)
		if !hasU && !hasS {
			zv.Reach("nil-nil-layer")
			zv.Assert(wrapped == ch, "no-interceptors-returns-original-channel")
		} else {
			w, ok := wrapped.(WrappedClientConn)
			zv.Assert(ok, "wrapper-implements-WrappedClientConn")
			if ok {
				zv.Assert(w.Unwrap() == ch, "unwrap-yields-wrapped-channel")
			}
		}
		if isStream {
			hasInt[i] = hasS
		} else {
			hasInt[i] = hasU
		}
		forwards[i] = fw
		ch = wrapped
	}

	// expected interceptor sequence: outermost first, stopping at the first one
	// that does not forward
	var want []int
	reachesBase := true
	for i := depth - 1; i >= 0; i-- {
		if !hasInt[i] {
			continue
		}
		want = append(want, i)
		if !forwards[i] {
			reachesBase = false
			break
		}
	}
	if realCC && reachesBase {
		// a zero *grpc.ClientConn cannot take the call; those configurations are
		// covered with the plain base channel
		return
	}

	var err error
	var st grpc.ClientStream
	if isStream {
		st, err = ch.NewStream(c.ctx, c.desc, c.method, c.opt)
	} else {
		err = ch.Invoke(c.ctx, c.method, c.req, c.resp, c.opt)
	}
	// c.method / c.opt now hold what the innermost altering interceptor passed on
	zv.Reach("called")
	zv.Observe("events", len(c.events), len(want), reachesBase)
	zv.Assert(len(c.events) == len(want), "each-applicable-interceptor-exactly-once")
	if len(c.events) == len(want) {
		for i := range want {
			zv.Assert(c.events[i] == want[i], "interceptors-run-outermost-first")
		}
	}
	if reachesBase {
		zv.Reach("reaches-base")
		zv.Assert(err == base.err, "base-error-returned-unchanged")
		if isStream {
			zv.Assert(base.streamed == 1 && base.invoked == 0, "base-stream-created-once")
			zv.Assert(st == base.stream, "base-stream-returned-unchanged")
			zv.Assert(base.desc == c.desc, "base-gets-desc")
		} else {
			zv.Assert(base.invoked == 1 && base.streamed == 0, "base-invoked-once")
			zv.Assert(base.req == c.req && base.resp == c.resp, "base-gets-messages")
		}
		zv.Assert(base.method == c.method, "base-gets-method")
		zv.Assert(verifSameOpts(base.opts, c.opt), "base-gets-options")
		zv.Assert(base.ctx == c.ctx, "base-gets-context")
	} else {
		zv.Reach("short-circuit")
		zv.Assert(err == c.shortErr, "short-circuit-error-returned-unchanged")
		zv.Assert(base.invoked == 0 && base.streamed == 0, "base-not-reached-after-short-circuit")
	}
}
