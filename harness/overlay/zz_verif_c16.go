//go:build verif

package grpchan

import (
	"context"
	"errors"
	"fmt"

	"google.golang.org/grpc"
	"google.golang.org/grpc/metadata"

	zv "github.com/fullstorydev/grpchan/internal/zzverif"
)

type verifSvcIface interface{ verifSvc() }
type verifSvcImpl struct{ id int }

func (*verifSvcImpl) verifSvc() {}

type verifTok struct{ id int }

type verifServerStream struct{ id int }

func (*verifServerStream) SetHeader(metadata.MD) error  { return nil }
func (*verifServerStream) SendHeader(metadata.MD) error { return nil }
func (*verifServerStream) SetTrailer(metadata.MD)       {}
func (*verifServerStream) Context() context.Context     { return context.Background() }
func (*verifServerStream) SendMsg(m interface{}) error  { return nil }
func (*verifServerStream) RecvMsg(m interface{}) error  { return nil }

// behaviours of an interceptor
const (
	verifForward = iota
	verifShort   // returns its own result without calling onward
	verifFail    // returns an error without calling onward
	verifRewrite // calls onward, then replaces the result
	verifDerive  // calls onward with a derived context and another request / a wrapped stream
	verifNumBehaviours
)

type verifC16 struct {
	events   []string
	req      *verifTok
	resp     *verifTok
	herr     error
	ctx      context.Context
	srv      *verifSvcImpl
	svcName  string
	rewrite  *verifTok
	shortRes *verifTok
	failErr  error
	stream   *verifServerStream
	// what the next stage of the chain must be handed: exactly what the stage
	// before it passed onward
	curCtx    context.Context
	curReq    interface{}
	curStream grpc.ServerStream
}

func (c *verifC16) begin() {
	c.events = nil
	c.curCtx, c.curReq, c.curStream = c.ctx, c.req, c.stream
}

func (c *verifC16) unaryInt(name string, behaviour int, wantMethod string) grpc.UnaryServerInterceptor {
	return func(ctx context.Context, req interface{}, info *grpc.UnaryServerInfo, handler grpc.UnaryHandler) (interface{}, error) {
		c.events = append(c.events, name)
		zv.Assert(info.FullMethod == wantMethod, "unary-interceptor-told-full-method")
		zv.Assert(info.Server == interface{}(c.srv), "unary-interceptor-told-server")
		zv.Assert(req == c.curReq, "unary-request-is-what-the-previous-stage-passed")
		zv.Assert(ctx == c.curCtx, "unary-context-is-what-the-previous-stage-passed")
		switch behaviour {
		case verifDerive:
			c.curCtx = context.WithValue(ctx, verifTok{9}, name)
			c.curReq = &verifTok{10 + len(c.events)}
			return handler(c.curCtx, c.curReq)
		case verifShort:
			return c.shortRes, nil
		case verifFail:
			return nil, c.failErr
		case verifRewrite:
			_, err := handler(ctx, req)
			return c.rewrite, err
		}
		return handler(ctx, req)
	}
}

func (c *verifC16) streamInt(name string, behaviour int, wantMethod string, wantCS, wantSS bool) grpc.StreamServerInterceptor {
	return func(srv interface{}, ss grpc.ServerStream, info *grpc.StreamServerInfo, handler grpc.StreamHandler) error {
		c.events = append(c.events, name)
		zv.Assert(info.FullMethod == wantMethod, "stream-interceptor-told-full-method")
		zv.Assert(info.IsClientStream == wantCS && info.IsServerStream == wantSS, "stream-interceptor-told-streaming-flags")
		zv.Assert(srv == interface{}(c.srv), "stream-interceptor-told-server")
		zv.Assert(ss == c.curStream, "stream-is-what-the-previous-stage-passed")
		switch behaviour {
		case verifDerive:
			c.curStream = &verifServerStream{id: 10 + len(c.events)}
			return handler(srv, c.curStream)
		case verifShort:
			return nil
		case verifFail:
			return c.failErr
		case verifRewrite:
			handler(srv, ss)
			return c.failErr
		}
		return handler(srv, ss)
	}
}

// reference semantics of one interceptor chain (outermost first)
func (c *verifC16) simUnary(bs []int) (res interface{}, err error, handlerRuns bool, n int) {
	if len(bs) == 0 {
		if c.herr != nil {
			return nil, c.herr, true, 0
		}
		return c.resp, nil, true, 0
	}
	switch bs[0] {
	case verifShort:
		return c.shortRes, nil, false, 1
	case verifFail:
		return nil, c.failErr, false, 1
	case verifRewrite:
		_, e, hr, k := c.simUnary(bs[1:])
		return c.rewrite, e, hr, k + 1
	}
	r, e, hr, k := c.simUnary(bs[1:])
	return r, e, hr, k + 1
}

func (c *verifC16) simStream(bs []int) (err error, handlerRuns bool, n int) {
	if len(bs) == 0 {
		return c.herr, true, 0
	}
	switch bs[0] {
	case verifShort:
		return nil, false, 1
	case verifFail:
		return c.failErr, false, 1
	case verifRewrite:
		_, hr, k := c.simStream(bs[1:])
		return c.failErr, hr, k + 1
	}
	e, hr, k := c.simStream(bs[1:])
	return e, hr, k + 1
}

// Verif_C16_Decorate: InterceptServer / WithInterceptor over symbolic descriptors.
func Verif_C16_Decorate() {
	c := &verifC16{req: &verifTok{1}, resp: &verifTok{2}, herr: nil, ctx: context.WithValue(context.Background(), "k", 1),
		srv: &verifSvcImpl{}, svcName: "pkg.Svc", rewrite: &verifTok{3}, shortRes: &verifTok{4}, failErr: errors.New("interceptor failed"),
		stream: &verifServerStream{}}
	nU := zv.Choose("unary-methods", 3)
	nS := zv.Choose("stream-methods", 3)
	handlerFails := zv.Bool("handler-fails")
	if handlerFails {
		c.herr = errors.New("handler failed")
	}
	orig := &grpc.ServiceDesc{ServiceName: c.svcName, HandlerType: (*verifSvcIface)(nil), Metadata: "meta"}
	csFlags := make([]bool, nS)
	ssFlags := make([]bool, nS)
	for i := 0; i < nU; i++ {
		name := fmt.Sprintf("U%d", i)
		orig.Methods = append(orig.Methods, grpc.MethodDesc{MethodName: name, Handler: func(srv interface{}, ctx context.Context, dec func(interface{}) error, interceptor grpc.UnaryServerInterceptor) (interface{}, error) {
			in := c.req
			if err := dec(in); err != nil {
				return nil, err
			}
			h := func(ctx context.Context, req interface{}) (interface{}, error) {
				c.events = append(c.events, "handler:"+name)
				zv.Assert(req == c.curReq, "handler-gets-the-request-the-last-interceptor-passed")
				zv.Assert(ctx == c.curCtx, "handler-gets-the-context-the-last-interceptor-passed")
				if c.herr != nil {
					return nil, c.herr
				}
				return c.resp, nil
			}
			if interceptor == nil {
				return h(ctx, in)
			}
			return interceptor(ctx, in, &grpc.UnaryServerInfo{Server: srv, FullMethod: "/" + c.svcName + "/" + name}, h)
		}})
	}
	for i := 0; i < nS; i++ {
		name := fmt.Sprintf("S%d", i)
		csFlags[i] = zv.Bool(fmt.Sprintf("client-streams#%d", i))
		ssFlags[i] = zv.Bool(fmt.Sprintf("server-streams#%d", i))
		orig.Streams = append(orig.Streams, grpc.StreamDesc{StreamName: name, ClientStreams: csFlags[i], ServerStreams: ssFlags[i],
			Handler: func(srv interface{}, ss grpc.ServerStream) error {
				c.events = append(c.events, "handler:"+name)
				zv.Assert(ss == c.curStream, "handler-gets-the-stream-the-last-interceptor-passed")
				return c.herr
			}})
	}
	// snapshot of the original for the "left unmodified" clause
	snapMethods := append([]grpc.MethodDesc(nil), orig.Methods...)
	snapStreams := append([]grpc.StreamDesc(nil), orig.Streams...)

	// decoration: depth 0..2, each layer with nil or non-nil interceptors
	depth := zv.Choose("depth", zv.Param("depth", 2)+1)
	desc := orig
	var layerU, layerS []bool
	var layerB []int
	for l := 0; l < depth; l++ {
		hasU := zv.Bool(fmt.Sprintf("layer-unary#%d", l))
		hasS := zv.Bool(fmt.Sprintf("layer-stream#%d", l))
		b := zv.Choose(fmt.Sprintf("layer-behaviour#%d", l), verifNumBehaviours)
		layerU, layerS, layerB = append(layerU, hasU), append(layerS, hasS), append(layerB, b)
	}
	target := zv.Choose("target", nU+nS+1)
	if target == nU+nS {
		return // nothing to call (empty descriptor): only construction is exercised below
	}
	var wantMethod string
	if target < nU {
		wantMethod = fmt.Sprintf("/%s/U%d", c.svcName, target)
	} else {
		wantMethod = fmt.Sprintf("/%s/S%d", c.svcName, target-nU)
	}
	for l := 0; l < depth; l++ {
		var ui grpc.UnaryServerInterceptor
		var si grpc.StreamServerInterceptor
		if layerU[l] {
			ui = c.unaryInt(fmt.Sprintf("decor%d", l), layerB[l], wantMethod)
		}
		if layerS[l] {
			cs, ss := false, false
			if target >= nU {
				cs, ss = csFlags[target-nU], ssFlags[target-nU]
			}
			si = c.streamInt(fmt.Sprintf("decor%d", l), layerB[l], wantMethod, cs, ss)
		}
		prev := desc
		useRegistry := zv.Choose(fmt.Sprintf("via-registry#%d", l), 2) == 1
		if useRegistry {
			hm := HandlerMap{}
			WithInterceptor(hm, ui, si).RegisterService(prev, c.srv)
			got, h := hm.QueryService(c.svcName)
			zv.Assert(h == interface{}(c.srv), "registry-keeps-handler")
			desc = got
		} else {
			desc = InterceptServer(prev, ui, si)
		}
		if ui == nil && si == nil {
			zv.Reach("nil-nil-decoration")
			zv.Assert(desc == prev, "no-interceptors-returns-original-description")
		} else {
			zv.Assert(desc != prev, "decorated-description-is-a-copy")
			zv.Assert(desc.ServiceName == prev.ServiceName && desc.HandlerType == prev.HandlerType && desc.Metadata == prev.Metadata, "decorated-description-keeps-identity-fields")
			zv.Assert(len(desc.Methods) == nU && len(desc.Streams) == nS, "decorated-description-keeps-all-methods")
		}
	}
	// the original must be untouched (same handlers, names, flags)
	zv.Assert(len(orig.Methods) == len(snapMethods) && len(orig.Streams) == len(snapStreams), "original-description-unmodified")
	for i := range snapStreams {
		zv.Assert(orig.Streams[i].StreamName == snapStreams[i].StreamName && orig.Streams[i].ClientStreams == snapStreams[i].ClientStreams && orig.Streams[i].ServerStreams == snapStreams[i].ServerStreams, "original-description-unmodified")
	}

	// transport-level interceptor
	hasT := zv.Bool("transport-interceptor")
	tB := zv.Choose("transport-behaviour", verifNumBehaviours)

	// expected chain: transport first, then decorations outermost (last applied) first
	var names []string
	var behaviours []int
	isUnary := target < nU
	if hasT {
		names, behaviours = append(names, "transport"), append(behaviours, tB)
	}
	for l := depth - 1; l >= 0; l-- {
		if isUnary && layerU[l] || !isUnary && layerS[l] {
			names, behaviours = append(names, fmt.Sprintf("decor%d", l)), append(behaviours, layerB[l])
		}
	}

	c.begin()
	if isUnary {
		md := desc.Methods[target]
		zv.Assert(md.MethodName == fmt.Sprintf("U%d", target), "method-name-kept")
		var ti grpc.UnaryServerInterceptor
		if hasT {
			ti = c.unaryInt("transport", tB, wantMethod)
		}
		res, err := md.Handler(c.srv, c.ctx, func(interface{}) error { return nil }, ti)
		zv.Reach("unary-dispatched")
		wantRes, wantErr, handlerRuns, nInt := c.simUnary(behaviours)
		verifCheckEvents(c, names[:nInt], handlerRuns, "U", target)
		zv.Assert(res == wantRes, "result-is-what-the-chain-yields")
		zv.Assert(err == wantErr, "error-is-what-the-chain-yields")
		// a second dispatch of the same decorated method with ANOTHER transport
		// interceptor must go through that one (nothing may be cached per method)
		if hasT {
			c.begin()
			ti2 := c.unaryInt("transport2", tB, wantMethod)
			res2, err2 := md.Handler(c.srv, c.ctx, func(interface{}) error { return nil }, ti2)
			names2 := append([]string{"transport2"}, names[1:]...)
			verifCheckEvents(c, names2[:nInt], handlerRuns, "U", target)
			zv.Assert(res2 == wantRes && err2 == wantErr, "second-dispatch-yields-the-same-result")
		}
		// the original description still dispatches to the bare handler
		c.begin()
		_, errO := orig.Methods[target].Handler(c.srv, c.ctx, func(interface{}) error { return nil }, nil)
		verifCheckEvents(c, nil, true, "U", target)
		zv.Assert(errO == c.herr, "original-description-still-runs-only-the-handler")
	} else {
		si := target - nU
		sd := desc.Streams[si]
		zv.Assert(sd.StreamName == fmt.Sprintf("S%d", si) && sd.ClientStreams == csFlags[si] && sd.ServerStreams == ssFlags[si], "stream-desc-fields-kept")
		var err error
		if hasT {
			// the transports call the interceptor with the registered handler
			info := &grpc.StreamServerInfo{FullMethod: wantMethod, IsClientStream: sd.ClientStreams, IsServerStream: sd.ServerStreams}
			err = c.streamInt("transport", tB, wantMethod, csFlags[si], ssFlags[si])(c.srv, c.stream, info, sd.Handler)
		} else {
			err = sd.Handler(c.srv, c.stream)
		}
		zv.Reach("stream-dispatched")
		wantErr, handlerRuns, nInt := c.simStream(behaviours)
		verifCheckEvents(c, names[:nInt], handlerRuns, "S", si)
		zv.Assert(err == wantErr, "error-is-what-the-chain-yields")
		// the original description still dispatches to the bare handler
		c.begin()
		errO := orig.Streams[si].Handler(c.srv, c.stream)
		verifCheckEvents(c, nil, true, "S", si)
		zv.Assert(errO == c.herr, "original-description-still-runs-only-the-handler")
	}
}

func verifCheckEvents(c *verifC16, want []string, handlerRuns bool, kind string, idx int) {
	want = append([]string(nil), want...)
	if handlerRuns {
		want = append(want, fmt.Sprintf("handler:%s%d", kind, idx))
	}
	zv.Observe("events", len(c.events), len(want), handlerRuns)
	zv.Assert(len(c.events) == len(want), "each-interceptor-and-handler-exactly-once")
	if len(c.events) == len(want) {
		for i := range want {
			zv.Assert(c.events[i] == want[i], "transport-first-then-decorations-outermost-first-then-handler")
		}
	}
}
