//go:build verif

package inprocgrpc

import (
	"context"
	"io"
	"sync/atomic"

	"google.golang.org/grpc"
	"google.golang.org/grpc/codes"
	"google.golang.org/grpc/metadata"
	"google.golang.org/grpc/status"

	"github.com/fullstorydev/grpchan/internal/zzfix"
	zv "github.com/fullstorydev/grpchan/internal/zzverif"
)

// verifEndCtx creates the caller's context and the environment event that ends it.
func verifEndCtx(deadline bool) (context.Context, context.CancelFunc, codes.Code) {
	ctx, cancel := zv.EndableContext(deadline)
	if deadline {
		return ctx, cancel, codes.DeadlineExceeded
	}
	return ctx, cancel, codes.Canceled
}

// Verif_C04_InProcUnary: a unary in-process call whose context is cancelled (or
// whose deadline fires) at ANY scheduling point of the call. The handler honours
// its context, ignores it, fails with its own status, or returns the context's
// error; it may set trailers.
func Verif_C04_InProcUnary() {
	deadline := zv.Bool("deadline-instead-of-cancel")
	behaviour := zv.Choose("handler", 4) // 0 respond, 1 wait for ctx then return ctx.Err(), 2 fail Aborted, 3 respond after ctx done
	setTrailer := zv.Bool("handler-sets-trailer")
	hooks := &verifHooks{}
	var handlerCtxDone int32
	hooks.Unary = func(tag string, ctx context.Context, req *verifMsg) (*verifMsg, error) {
		if setTrailer {
			grpc.SetTrailer(ctx, metadata.Pairs("t", "v"))
		}
		switch behaviour {
		case 1:
			<-ctx.Done()
			atomic.StoreInt32(&handlerCtxDone, 1)
			return nil, ctx.Err()
		case 2:
			return nil, status.Error(codes.Aborted, "handler failed")
		case 3:
			<-ctx.Done()
			atomic.StoreInt32(&handlerCtxDone, 1)
			return &verifMsg{Count: 7}, nil
		}
		return &verifMsg{Count: 7}, nil
	}
	ch := verifChannel(hooks)
	ctx, cancel, endCode := verifEndCtx(deadline)
	defer cancel()
	var tr metadata.MD
	resp := &verifMsg{}
	err := ch.Invoke(ctx, "/a/U", &verifMsg{Count: 1}, resp, grpc.Trailer(&tr))
	ended := zv.Cancelled(ctx)
	st, isStatus := status.FromError(err)
	zv.Observe("outcome", behaviour, err == nil, isStatus)
	switch {
	case err == nil:
		zv.Reach("success")
		zv.Assert(behaviour == 0 || behaviour == 3, "success-only-if-handler-succeeded")
		zv.Assert(resp.Count == 7, "success-delivers-the-response")
		zv.Assert(!setTrailer || len(tr["t"]) == 1, "success-delivers-the-trailers")
	case !isStatus:
		zv.Reach("non-status-error")
		zv.Assert(err != io.EOF, "never-a-bare-EOF")
		zv.Fail("error-is-a-grpc-status")
	case st.Code() == endCode:
		zv.Reach("ended")
		zv.Assert(ended, "cancellation-status-only-after-the-context-ended")
	default:
		zv.Reach("handler-status")
		zv.Assert(behaviour == 2 && st.Code() == codes.Aborted, "error-is-the-handlers-status-or-the-cancellation-status")
	}
	if behaviour == 1 && err != nil && isStatus {
		// the handler returned its context's error: the client sees the matching code
		zv.Assert(st.Code() == endCode, "handler-context-error-maps-to-matching-code")
	}
	// the handler's context ends too (a handler waiting on it must wake up)
	zv.CheckLeaks()
}

// Verif_C04_InProcStream: a server-streaming / bidi in-process call; the handler
// sends up to k responses; the client receives until an error.
func Verif_C04_InProcStream() {
	mtd := []string{"R", "S", "C"}[zv.Choose("method", 3)]
	nResp := zv.Param("responses", 1)
	behaviour := zv.Choose("handler", 5)
	// the deadline variant differs from cancellation only in who ends the context;
	// it is combined with the handlers that depend on the caller's context
	deadline := behaviour <= 1 && zv.Bool("deadline-instead-of-cancel") // 0 send all then return nil, 1 send all, wait for ctx, return ctx.Err(), 2 fail Aborted after sending, 3/4 return a context error of its own
	if zv.Bool("handler-sends-nothing") {
		nResp = 0
	}
	headerFirst := zv.Bool("client-asks-for-headers-first")
	hooks := &verifHooks{}
	hooks.Stream = func(tag string, ss grpc.ServerStream) error {
		if mtd != "R" {
			// consume the client's messages first
			for {
				if err := ss.RecvMsg(&verifMsg{}); err != nil {
					break
				}
			}
		} else {
			ss.RecvMsg(&verifMsg{})
		}
		n := nResp
		if mtd == "C" {
			n = 1
		}
		for i := 0; i < n; i++ {
			if err := ss.SendMsg(&verifMsg{Count: int32(i + 1)}); err != nil {
				return err
			}
		}
		if n > 0 || behaviour == 0 {
			ss.SetTrailer(metadata.Pairs("t", "v"))
		}
		switch behaviour {
		case 1:
			<-ss.Context().Done()
			return ss.Context().Err()
		case 2:
			return status.Error(codes.Aborted, "handler failed")
		case 3:
			return context.Canceled
		case 4:
			return context.DeadlineExceeded
		}
		return nil
	}
	ch := verifChannel(hooks)
	ctx, cancel, endCode := verifEndCtx(deadline)
	defer cancel()
	cs, err := ch.NewStream(ctx, zzfix.StreamDescOf(mtd), "/a/"+mtd)
	if err != nil {
		zv.Fail("stream-created")
		return
	}
	cs.SendMsg(&verifMsg{Count: 1}) // may fail once the context ended
	cs.CloseSend()
	if headerFirst {
		cs.Header()
	}
	want := nResp
	if mtd == "C" {
		want = 1
	}
	got := 0
	var final error
	for {
		m := &verifMsg{}
		e := cs.RecvMsg(m)
		if e != nil {
			final = e
			break
		}
		got++
		zv.Assert(m.Count == int32(got), "received-prefix-intact")
		if got > want {
			zv.Fail("no-more-messages-than-sent")
			return
		}
	}
	ended := zv.Cancelled(ctx)
	st, isStatus := status.FromError(final)
	zv.Observe("outcome", mtd, behaviour, got, final == io.EOF)
	switch {
	case final == io.EOF:
		zv.Reach("success")
		zv.Assert(behaviour == 0, "success-only-if-handler-succeeded")
		zv.Assert(got == want, "success-delivers-every-message")
		zv.Assert(len(cs.Trailer()["t"]) == 1, "success-delivers-the-trailers")
	case !isStatus:
		zv.Reach("non-status-error")
		zv.Fail("error-is-a-grpc-status")
	case behaviour == 3 && st.Code() == codes.Canceled, behaviour == 4 && st.Code() == codes.DeadlineExceeded:
		zv.Reach("handler-context-error")
	case st.Code() == endCode:
		zv.Reach("ended")
		zv.Assert(ended, "cancellation-status-only-after-the-context-ended")
	default:
		zv.Reach("handler-status")
		zv.Assert(behaviour == 2 && st.Code() == codes.Aborted, "error-is-the-handlers-status-or-the-cancellation-status")
	}
	// later operations keep returning the same kind of outcome, promptly
	e2 := cs.RecvMsg(&verifMsg{})
	zv.Assert(e2 != nil, "receive-after-end-fails")
	if e2 != nil && final != io.EOF {
		_, ok2 := status.FromError(e2)
		zv.Assert(ok2, "later-receive-is-a-grpc-status")
	}
	zv.CheckLeaks()
}
