//go:build verif

package inprocgrpc

import (
	"bytes"
	"context"
	"fmt"
	"io"

	"google.golang.org/grpc"

	"github.com/fullstorydev/grpchan/internal/zzfix"
	zv "github.com/fullstorydev/grpchan/internal/zzverif"
)

func verifPayload(name string) []byte { return zv.Bytes(name, zv.Param("payloadcap", 1)) }

func verifSameMsg(got *verifMsg, payload []byte, idx, tag int32) bool {
	return zv.And(bytes.Equal(got.Payload, payload), zv.And(got.Count == idx, got.Code == tag))
}

// verifEchoStream runs one bidi RPC on ch: the client sends n messages with the
// given payloads (sender in its own goroutine), the handler echoes every message
// it receives, the client receives until the end. Every message received, on
// either side, must be the next one sent by the peer, intact.
func verifEchoStream(ch *Channel, ctx context.Context, tag int32, payloads [][]byte, done chan<- struct{}) {
	defer func() {
		if done != nil {
			close(done)
		}
	}()
	cs, err := ch.NewStream(ctx, zzfix.StreamDescOf("S"), "/a/S")
	if err != nil {
		zv.Fail("stream-created")
		return
	}
	n := len(payloads)
	go func() {
		for i := 0; i < n; i++ {
			if err := cs.SendMsg(&verifMsg{Payload: payloads[i], Count: int32(i), Code: tag}); err != nil {
				zv.Fail("client-send-succeeds")
				return
			}
		}
		cs.CloseSend()
	}()
	got := 0
	for {
		m := &verifMsg{}
		e := cs.RecvMsg(m)
		if e == io.EOF {
			break
		}
		if e != nil {
			zv.Fail("client-receive-succeeds")
			return
		}
		zv.Assert(got < n, "client-never-receives-more-than-was-sent")
		if got < n {
			zv.Assert(verifSameMsg(m, payloads[got], int32(got), tag), "client-receives-next-message-intact")
		}
		got++
	}
	zv.Assert(got == n, "successful-end-means-every-message-arrived")
}

// Verif_C01_InProcBidi: a full-duplex bidi RPC with n messages per direction and
// symbolic payload bytes; optionally a second concurrent RPC on the same channel
// with a different tag (no cross-talk).
func Verif_C01_InProcBidi() {
	n := zv.Choose("messages", zv.Param("maxmsgs", 2)+1)
	two := zv.Bool("two-concurrent-rpcs")
	hooks := &verifHooks{}
	hooks.Stream = func(tag string, ss grpc.ServerStream) error {
		i := int32(0)
		for {
			m := &verifMsg{}
			if err := ss.RecvMsg(m); err != nil {
				if err != io.EOF {
					zv.Fail("handler-receive-ends-cleanly")
				}
				return nil
			}
			zv.Assert(m.Count == i, "handler-receives-in-order")
			i++
			if err := ss.SendMsg(m); err != nil {
				zv.Fail("handler-send-succeeds")
				return nil
			}
		}
	}
	ch := verifChannel(hooks)
	ctx, cancel := context.WithCancel(context.Background())
	defer cancel()
	var p1, p2 [][]byte
	for i := 0; i < n; i++ {
		p1 = append(p1, verifPayload(fmt.Sprintf("rpc1-payload#%d", i)))
	}
	if !two {
		verifEchoStream(ch, ctx, 1, p1, nil)
		zv.Reach("single-rpc-done")
		zv.CheckLeaks()
		return
	}
	for i := 0; i < n; i++ {
		p2 = append(p2, verifPayload(fmt.Sprintf("rpc2-payload#%d", i)))
	}
	d2 := make(chan struct{})
	go verifEchoStream(ch, ctx, 2, p2, d2)
	verifEchoStream(ch, ctx, 1, p1, nil)
	<-d2
	zv.Reach("two-rpcs-done")
	zv.CheckLeaks()
}

// Verif_C01_InProcKinds: unary, server-streaming and client-streaming RPCs.
func Verif_C01_InProcKinds() {
	kind := []string{"U", "R", "C"}[zv.Choose("kind", 3)]
	n := zv.Choose("messages", zv.Param("maxmsgs", 2)+1)
	var payloads [][]byte
	for i := 0; i < n; i++ {
		payloads = append(payloads, verifPayload(fmt.Sprintf("payload#%d", i)))
	}
	reqPayload := verifPayload("request-payload")
	handlerReuses := zv.Bool("sender-reuses-its-message-object")
	hooks := &verifHooks{}
	hooks.Unary = func(tag string, ctx context.Context, req *verifMsg) (*verifMsg, error) {
		zv.Assert(bytes.Equal(req.Payload, reqPayload) && req.Count == 7, "handler-receives-request-intact")
		return &verifMsg{Payload: req.Payload, Count: 8}, nil
	}
	hooks.Stream = func(tag string, ss grpc.ServerStream) error {
		if kind == "R" {
			m := &verifMsg{}
			if err := ss.RecvMsg(m); err != nil {
				zv.Fail("handler-receives-request")
				return nil
			}
			zv.Assert(bytes.Equal(m.Payload, reqPayload), "handler-receives-request-intact")
			reuse := &verifMsg{}
			for i := 0; i < n; i++ {
				if handlerReuses {
					// a handler may reuse its message once a send has returned
					reuse.Payload, reuse.Count = payloads[i], int32(i)
					ss.SendMsg(reuse)
				} else {
					ss.SendMsg(&verifMsg{Payload: payloads[i], Count: int32(i)})
				}
			}
			return nil
		}
		// client streaming: n requests, one response carrying the count
		i := 0
		for {
			m := &verifMsg{}
			if err := ss.RecvMsg(m); err != nil {
				break
			}
			zv.Assert(i < n, "handler-never-receives-more-than-was-sent")
			if i < n {
				zv.Assert(bytes.Equal(m.Payload, payloads[i]) && m.Count == int32(i), "handler-receives-next-message-intact")
			}
			i++
		}
		zv.Assert(i == n, "handler-received-every-message")
		return ss.SendMsg(&verifMsg{Count: int32(i), Payload: reqPayload})
	}
	ch := verifChannel(hooks)
	ctx, cancel := context.WithCancel(context.Background())
	defer cancel()
	switch kind {
	case "U":
		resp := &verifMsg{}
		err := ch.Invoke(ctx, "/a/U", &verifMsg{Payload: reqPayload, Count: 7}, resp)
		zv.Assert(err == nil, "unary-succeeds")
		zv.Assert(bytes.Equal(resp.Payload, reqPayload) && resp.Count == 8, "caller-receives-response-intact")
	case "R":
		cs, err := ch.NewStream(ctx, zzfix.StreamDescOf("R"), "/a/R")
		if err != nil {
			zv.Fail("stream-created")
			return
		}
		cs.SendMsg(&verifMsg{Payload: reqPayload})
		cs.CloseSend()
		// looking at the response headers (any number of times) consumes no message
		for polls := zv.Choose("header-polls-before-receiving", 3); polls > 0; polls-- {
			cs.Header()
		}
		// a receiver may take every message into the same message value
		receiverReuses := zv.Bool("receiver-reuses-its-message-value")
		shared := &verifMsg{}
		got := 0
		for {
			m := &verifMsg{}
			if receiverReuses {
				m = shared
			}
			e := cs.RecvMsg(m)
			if e != nil {
				zv.Assert(e == io.EOF, "server-stream-ends-cleanly")
				break
			}
			zv.Assert(got < n, "client-never-receives-more-than-was-sent")
			if got < n {
				zv.Assert(bytes.Equal(m.Payload, payloads[got]) && m.Count == int32(got), "client-receives-next-message-intact")
			}
			got++
		}
		zv.Assert(got == n, "successful-end-means-every-message-arrived")
	case "C":
		cs, err := ch.NewStream(ctx, zzfix.StreamDescOf("C"), "/a/C")
		if err != nil {
			zv.Fail("stream-created")
			return
		}
		creuse := &verifMsg{}
		for i := 0; i < n; i++ {
			if handlerReuses {
				creuse.Payload, creuse.Count = payloads[i], int32(i)
				cs.SendMsg(creuse)
			} else {
				cs.SendMsg(&verifMsg{Payload: payloads[i], Count: int32(i)})
			}
		}
		cs.CloseSend()
		m := &verifMsg{}
		zv.Assert(cs.RecvMsg(m) == nil, "client-stream-response-arrives")
		zv.Assert(m.Count == int32(n) && bytes.Equal(m.Payload, reqPayload), "response-intact")
	}
	zv.Reach("done")
	zv.CheckLeaks()
}
