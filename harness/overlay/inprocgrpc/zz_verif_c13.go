//go:build verif

package inprocgrpc

import (
	"context"
	"errors"
	"io"

	"google.golang.org/grpc"
	"google.golang.org/grpc/metadata"
	"google.golang.org/grpc/peer"

	"github.com/fullstorydev/grpchan/internal/zzfix"
	zv "github.com/fullstorydev/grpchan/internal/zzverif"
)

type verifCreds struct {
	md     map[string]string
	err    error
	secure bool
	calls  int
	uri    string
}

func (c *verifCreds) GetRequestMetadata(ctx context.Context, uri ...string) (map[string]string, error) {
	c.calls++
	if len(uri) > 0 {
		c.uri = uri[0]
	}
	return c.md, c.err
}

func (c *verifCreds) RequireTransportSecurity() bool { return c.secure }

// Verif_C13_InProc: the in-process side of C13. The channel counts as secure, so
// credentials are always consulted (once), their metadata is merged after the
// caller's per key (keys are case-insensitive), a credential error fails the call
// before any handler runs, and both the peer call option and the handler's peer
// report the in-process address.
func Verif_C13_InProc() {
	hooks := &verifHooks{}
	streaming := zv.Bool("streaming")
	credKind := zv.Choose("cred-metadata", 6) // 0 nil map, 1 disjoint, 2 overlapping, 3 error, 4 overlapping with upper-case key, 5 empty map
	secure := zv.Bool("creds-require-security")
	callerKind := zv.Choose("caller-metadata", 3) // 0 none, 1 NewOutgoingContext, 2 New + AppendToOutgoingContext
	callerMD := callerKind != 0

	var seenMD metadata.MD
	var seenPeer *peer.Peer
	hooks.Unary = func(tag string, ctx context.Context, req *verifMsg) (*verifMsg, error) {
		seenMD, _ = metadata.FromIncomingContext(ctx)
		seenPeer, _ = peer.FromContext(ctx)
		return &verifMsg{}, nil
	}
	hooks.Stream = func(tag string, ss grpc.ServerStream) error {
		seenMD, _ = metadata.FromIncomingContext(ss.Context())
		seenPeer, _ = peer.FromContext(ss.Context())
		return nil
	}
	ch := verifChannel(hooks)
	ctx := context.Background()
	if callerKind == 1 {
		ctx = metadata.NewOutgoingContext(ctx, metadata.Pairs("k1", "caller-1", "shared", "caller-s"))
	} else if callerKind == 2 {
		ctx = metadata.NewOutgoingContext(ctx, metadata.Pairs("k1", "caller-1"))
		ctx = metadata.AppendToOutgoingContext(ctx, "shared", "caller-s")
	}
	creds := &verifCreds{secure: secure}
	switch credKind {
	case 1:
		creds.md = map[string]string{"auth": "token"}
	case 2:
		creds.md = map[string]string{"shared": "cred-s"}
	case 3:
		creds.err = errors.New("no credentials available")
	case 4:
		creds.md = map[string]string{"Shared": "cred-s"}
	case 5:
		creds.md = map[string]string{}
	}
	var pr peer.Peer
	opts := []grpc.CallOption{grpc.Peer(&pr), grpc.PerRPCCredentials(creds)}

	var err error
	if !streaming {
		err = ch.Invoke(ctx, "/a/U", &verifMsg{}, &verifMsg{}, opts...)
	} else {
		var stream grpc.ClientStream
		stream, err = ch.NewStream(ctx, zzfix.StreamDescOf("S"), "/a/S", opts...)
		if err == nil {
			stream.CloseSend()
			err = stream.RecvMsg(&verifMsg{})
			if err == io.EOF {
				err = nil
			}
		}
	}
	if credKind == 3 {
		zv.Reach("credential-error")
		zv.Assert(err == creds.err, "credential-error-returned")
		zv.Assert(len(hooks.Ran) == 0, "no-handler-after-credential-error")
		return
	}
	zv.Reach("call-made")
	zv.Assert(err == nil, "call-succeeds")
	zv.Assert(len(hooks.Ran) == 1, "one-handler")
	if err != nil || len(hooks.Ran) != 1 {
		return
	}
	zv.Assert(creds.calls == 1, "credentials-consulted-once")
	var wantK1, wantShared, wantAuth []string
	if callerMD {
		wantK1 = []string{"caller-1"}
		wantShared = []string{"caller-s"}
	}
	if credKind == 1 {
		wantAuth = []string{"token"}
	}
	if credKind == 2 || credKind == 4 {
		wantShared = append(wantShared, "cred-s")
	}
	verifSameList(seenMD["k1"], wantK1, "handler-sees-caller-metadata")
	verifSameList(seenMD["shared"], wantShared, "handler-sees-merged-metadata-in-order")
	verifSameList(seenMD["auth"], wantAuth, "handler-sees-credential-metadata")
	zv.Assert(seenPeer != nil && seenPeer.Addr != nil && seenPeer.Addr.Network() == "inproc", "handler-peer-is-the-in-process-address")
	zv.Assert(pr.Addr != nil && pr.Addr.Network() == "inproc", "peer-option-reports-the-in-process-address")
}

func verifSameList(got, want []string, label string) {
	zv.Assert(len(got) == len(want), label)
	if len(got) == len(want) {
		for i := range want {
			zv.Assert(got[i] == want[i], label)
		}
	}
}
