//go:build verif

package inprocgrpc

import (
	"context"
	"io"

	"google.golang.org/grpc"
	"google.golang.org/grpc/codes"
	"google.golang.org/grpc/metadata"
	"google.golang.org/grpc/status"

	"github.com/fullstorydev/grpchan/internal/zzfix"
	zv "github.com/fullstorydev/grpchan/internal/zzverif"
)

// Verif_C08_InProcStream: a client-streaming (single-response) method whose
// handler emits k = 0..3 responses with a nil or non-nil final status, with and
// without headers and trailers. The caller gets exactly one response with success,
// or an error; never success carrying one of several messages.
func Verif_C08_InProcStream() {
	k := zv.Choose("responses", 4)
	fails := zv.Bool("handler-fails")
	withMeta := zv.Bool("headers-and-trailers")
	headerFirst := zv.Bool("client-asks-for-headers-first")
	hooks := &verifHooks{}
	hooks.Stream = func(tag string, ss grpc.ServerStream) error {
		for {
			if err := ss.RecvMsg(&verifMsg{}); err != nil {
				break
			}
		}
		if withMeta {
			ss.SetHeader(metadata.Pairs("h", "v"))
			ss.SetTrailer(metadata.Pairs("t", "v"))
		}
		for i := 0; i < k; i++ {
			ss.SendMsg(&verifMsg{Count: int32(10 + i)})
		}
		if fails {
			return status.Error(codes.Aborted, "handler failed")
		}
		return nil
	}
	ch := verifChannel(hooks)
	ctx, cancel := context.WithCancel(context.Background())
	defer cancel()
	cs, err := ch.NewStream(ctx, zzfix.StreamDescOf("C"), "/a/C")
	if err != nil {
		zv.Fail("stream-created")
		return
	}
	cs.SendMsg(&verifMsg{Count: 1})
	cs.CloseSend()
	if headerFirst {
		cs.Header()
	}
	m := &verifMsg{}
	first := cs.RecvMsg(m)
	zv.Observe("first", k, fails, first == nil)
	if first == nil {
		zv.Reach("success")
		zv.Assert(k == 1 && !fails, "success-only-for-exactly-one-response-and-nil-status")
		zv.Assert(m.Count == 10, "the-delivered-message-is-that-response")
		second := cs.RecvMsg(&verifMsg{})
		zv.Assert(second == io.EOF, "then-clean-end")
	} else {
		zv.Reach("failure")
		zv.Assert(!(k == 1 && !fails), "exactly-one-response-and-nil-status-succeeds")
		if fails && k <= 1 {
			zv.Assert(status.Code(first) == codes.Aborted, "handler-status-reported")
		} else if k >= 2 {
			zv.Assert(status.Code(first) != codes.OK && first != io.EOF, "more-than-one-response-is-an-error")
		} else {
			// k == 0, nil status: no response at all
			zv.Assert(first != nil, "no-response-is-an-error")
		}
	}
	zv.CheckLeaks()
}

// Verif_C08_InProcUnary: a unary handler that returns no response message (nil,
// or a nil pointer) with a nil error is reported as an error.
func Verif_C08_InProcUnary() {
	kind := zv.Choose("handler-result", 3) // 0 proper response, 1 typed nil pointer, 2 error
	hooks := &verifHooks{}
	hooks.Unary = func(tag string, ctx context.Context, req *verifMsg) (*verifMsg, error) {
		switch kind {
		case 1:
			return nil, nil
		case 2:
			return nil, status.Error(codes.Aborted, "handler failed")
		}
		return &verifMsg{Count: 10}, nil
	}
	ch := verifChannel(hooks)
	resp := &verifMsg{Count: 99}
	err := ch.Invoke(context.Background(), "/a/U", &verifMsg{}, resp)
	zv.Observe("unary", kind, err == nil)
	switch kind {
	case 0:
		zv.Reach("one-response")
		zv.Assert(err == nil && resp.Count == 10, "one-response-succeeds")
	case 1:
		zv.Reach("no-response")
		zv.Assert(err != nil && status.Code(err) != codes.OK, "no-response-is-an-error")
	case 2:
		zv.Assert(status.Code(err) == codes.Aborted, "handler-status-reported")
	}
}
