//go:build verif

package inprocgrpc

import (
	"github.com/fullstorydev/grpchan/internal/zzfix"
)

type verifMsg = zzfix.Msg
type verifHooks = zzfix.Hooks

// verifChannel returns an in-process channel with services "a" and "b".
func verifChannel(h *verifHooks) *Channel {
	ch := &Channel{}
	ch.RegisterService(zzfix.Desc("a"), &zzfix.Srv{Name: "a", Hooks: h})
	ch.RegisterService(zzfix.Desc("b"), &zzfix.Srv{Name: "b", Hooks: h})
	return ch
}
