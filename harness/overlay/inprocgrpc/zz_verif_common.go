//go:build verif

package inprocgrpc

// Shared fixture of the in-process harnesses: a registry of small services whose
// handlers have the shape protoc-gen-go-grpc generates, with behaviour supplied by
// the harness through hooks.

import (
	"context"

	"google.golang.org/grpc"

	"github.com/fullstorydev/grpchan/grpchantesting"
)

type verifMsg = grpchantesting.Message

type verifServer interface {
	verifMark()
}

type verifSrv struct {
	name  string
	hooks *verifHooks
}

func (*verifSrv) verifMark() {}

// verifHooks is the handler behaviour of one harness run.
type verifHooks struct {
	// ran lists "<service>/<method>" for every handler invocation
	ran    []string
	unary  func(tag string, ctx context.Context, req *verifMsg) (*verifMsg, error)
	stream func(tag string, ss grpc.ServerStream) error
}

func (h *verifHooks) runUnary(s *verifSrv, mtd string, ctx context.Context, req *verifMsg) (*verifMsg, error) {
	tag := s.name + "/" + mtd
	h.ran = append(h.ran, tag)
	if h.unary != nil {
		return h.unary(tag, ctx, req)
	}
	return &verifMsg{}, nil
}

func (h *verifHooks) runStream(s *verifSrv, mtd string, ss grpc.ServerStream) error {
	tag := s.name + "/" + mtd
	h.ran = append(h.ran, tag)
	if h.stream != nil {
		return h.stream(tag, ss)
	}
	return nil
}

func verifUnaryHandler(mtd string) func(srv interface{}, ctx context.Context, dec func(interface{}) error, interceptor grpc.UnaryServerInterceptor) (interface{}, error) {
	return func(srv interface{}, ctx context.Context, dec func(interface{}) error, interceptor grpc.UnaryServerInterceptor) (interface{}, error) {
		in := new(verifMsg)
		if err := dec(in); err != nil {
			return nil, err
		}
		s := srv.(*verifSrv)
		if interceptor == nil {
			return s.hooks.runUnary(s, mtd, ctx, in)
		}
		info := &grpc.UnaryServerInfo{Server: srv, FullMethod: "/" + s.name + "/" + mtd}
		handler := func(ctx context.Context, req interface{}) (interface{}, error) {
			return s.hooks.runUnary(s, mtd, ctx, req.(*verifMsg))
		}
		return interceptor(ctx, in, info, handler)
	}
}

func verifStreamHandler(mtd string) grpc.StreamHandler {
	return func(srv interface{}, ss grpc.ServerStream) error {
		s := srv.(*verifSrv)
		return s.hooks.runStream(s, mtd, ss)
	}
}

// verifDesc describes a service with one unary method "U" and three streaming
// methods: "S" (bidi), "C" (client streaming), "R" (server streaming).
func verifDesc(name string) *grpc.ServiceDesc {
	return &grpc.ServiceDesc{
		ServiceName: name,
		HandlerType: (*verifServer)(nil),
		Methods: []grpc.MethodDesc{
			{MethodName: "U", Handler: verifUnaryHandler("U")},
		},
		Streams: []grpc.StreamDesc{
			{StreamName: "S", Handler: verifStreamHandler("S"), ServerStreams: true, ClientStreams: true},
			{StreamName: "C", Handler: verifStreamHandler("C"), ClientStreams: true},
			{StreamName: "R", Handler: verifStreamHandler("R"), ServerStreams: true},
		},
		Metadata: name + ".proto",
	}
}

// verifChannel returns an in-process channel with services "a" and "b".
func verifChannel(h *verifHooks) *Channel {
	ch := &Channel{}
	ch.RegisterService(verifDesc("a"), &verifSrv{name: "a", hooks: h})
	ch.RegisterService(verifDesc("b"), &verifSrv{name: "b", hooks: h})
	return ch
}
