//go:build verif

package inprocgrpc

import (
	"context"
	"io"
	"sync/atomic"

	"google.golang.org/grpc"
	"google.golang.org/grpc/metadata"

	"github.com/fullstorydev/grpchan/internal/zzfix"
	zv "github.com/fullstorydev/grpchan/internal/zzverif"
)

// Verif_C20_ClientToServer: the client attempts n sends while the handler receives
// nothing. At most one send completes; the next one is blocked (neither failed nor
// completed) and completes when the handler receives, when the handler returns, or
// when the context ends.
func Verif_C20_ClientToServer() {
	n := zv.Param("sends", 3)
	release := zv.Choose("release", 3) // 0 handler receives, 1 handler returns, 2 context cancelled
	// the bound is the same whatever the method's declared shape: also a raw stream
	// of a single-request (server-streaming) method parks its further sends
	mtd := []string{"S", "R", "C"}[zv.Choose("method", 3)]
	hooks := &verifHooks{}
	gate := make(chan struct{})
	var received int32
	hooks.Stream = func(tag string, ss grpc.ServerStream) error {
		<-gate // stalled receiver
		if release == 0 {
			for {
				if err := ss.RecvMsg(&verifMsg{}); err != nil {
					return nil
				}
				atomic.AddInt32(&received, 1)
			}
		}
		return nil
	}
	ch := verifChannel(hooks)
	ctx, cancel := context.WithCancel(context.Background())
	defer cancel()
	cs, err := ch.NewStream(ctx, zzfix.StreamDescOf(mtd), "/a/"+mtd)
	if err != nil {
		zv.Fail("stream-created")
		return
	}
	var completed, failed int32
	senderDone := make(chan struct{})
	go func() {
		defer close(senderDone)
		for i := 0; i < n; i++ {
			if err := cs.SendMsg(&verifMsg{Count: int32(i + 1)}); err != nil {
				atomic.AddInt32(&failed, 1)
				return
			}
			atomic.AddInt32(&completed, 1)
		}
		cs.CloseSend()
	}()
	zv.Quiesce()
	c := atomic.LoadInt32(&completed)
	zv.Reach("stalled")
	zv.Observe("stalled", c)
	zv.Assert(c <= 1, "at-most-one-send-completes-while-receiver-stalled")
	zv.Assert(atomic.LoadInt32(&failed) == 0, "blocked-send-has-not-failed")
	if n >= 2 {
		zv.Assert(c == 1, "first-send-is-buffered")
	}
	// release
	switch release {
	case 0, 1:
		close(gate)
	case 2:
		cancel()
	}
	<-senderDone // the blocked send completes in each of the three cases
	zv.Reach("released")
	if release == 0 {
		zv.Quiesce()
		zv.Assert(atomic.LoadInt32(&completed) == int32(n), "all-sends-complete-once-receiver-runs")
		zv.Assert(atomic.LoadInt32(&received) == int32(n), "all-messages-delivered")
	} else {
		close2(gate, release)
	}
}

func close2(gate chan struct{}, release int) {
	if release == 2 {
		close(gate)
	}
}

// Verif_C20_ServerToClient: the handler attempts n sends (optionally after setting
// headers) while the client receives nothing.
func Verif_C20_ServerToClient() {
	n := zv.Param("sends", 3)
	withHeaders := zv.Bool("pending-header-frame")
	mtd := []string{"S", "R", "C"}[zv.Choose("method", 3)]
	headerPolls := zv.Choose("client-header-polls", 3) // the client calls Header() this many times while not receiving
	hooks := &verifHooks{}
	var completed, failed int32
	hooks.Stream = func(tag string, ss grpc.ServerStream) error {
		if withHeaders {
			ss.SetHeader(metadata.Pairs("h", "v"))
		}
		for i := 0; i < n; i++ {
			if err := ss.SendMsg(&verifMsg{Count: int32(i + 1)}); err != nil {
				atomic.AddInt32(&failed, 1)
				return nil
			}
			atomic.AddInt32(&completed, 1)
		}
		return nil
	}
	ch := verifChannel(hooks)
	ctx, cancel := context.WithCancel(context.Background())
	defer cancel()
	cs, err := ch.NewStream(ctx, zzfix.StreamDescOf(mtd), "/a/"+mtd)
	if err != nil {
		zv.Fail("stream-created")
		return
	}
	for i := 0; i < headerPolls; i++ {
		cs.Header() // asking for the headers is not receiving messages
	}
	zv.Quiesce()
	c := atomic.LoadInt32(&completed)
	zv.Reach("stalled")
	zv.Observe("stalled", withHeaders, mtd, headerPolls, c)
	limit := int32(1)
	if withHeaders {
		limit = 0 // the header frame occupies the single slot
	}
	if headerPolls > 0 {
		// Header() takes one frame off the stream (the header frame, or the first
		// message which it keeps for the next receive): one more send may complete,
		// however often Header() is called
		limit++
	}
	zv.Assert(c <= limit, "at-most-one-frame-buffered-while-receiver-stalled")
	zv.Assert(atomic.LoadInt32(&failed) == 0, "blocked-send-has-not-failed")
	if mtd == "C" {
		// a single-response method: more than one response is an error for the
		// client; only the run-ahead bound above is the subject here
		cancel()
		zv.Quiesce()
		return
	}
	// the client now receives everything
	got := 0
	for {
		m := &verifMsg{}
		e := cs.RecvMsg(m)
		if e == io.EOF {
			break
		}
		if e != nil {
			zv.Fail("receive-succeeds")
			return
		}
		got++
		zv.Assert(m.Count == int32(got), "messages-in-order")
		if got > n {
			return
		}
		// a receiver that takes one message lets the sender advance by one, not more
		zv.Quiesce()
		zv.Assert(atomic.LoadInt32(&completed) <= int32(got)+1, "sender-at-most-one-message-ahead-of-a-slow-receiver")
	}
	zv.Reach("drained")
	zv.Assert(got == n && atomic.LoadInt32(&completed) == int32(n), "all-sends-complete-once-receiver-runs")
}
