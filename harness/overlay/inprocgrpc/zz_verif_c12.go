//go:build verif

package inprocgrpc

import (
	"context"
	"io"

	"google.golang.org/grpc"
	"google.golang.org/grpc/codes"
	"google.golang.org/grpc/status"

	zv "github.com/fullstorydev/grpchan/internal/zzverif"
)

// verifNameIs builds the term "name is svc/mtd with or without the leading slash"
// (grpchan accepts both).
func verifNameIs(name, svc, mtd string) bool {
	return zv.Or(name == "/"+svc+"/"+mtd, name == svc+"/"+mtd)
}

// Verif_C12_InProc: every method-name string up to the cap (all bytes), on both
// entry points, against a registry of two services with a unary method U and
// streaming methods S, C, R each. A handler runs iff the name is exactly its
// "/service/method" and the entry point matches its kind; every other name gives
// a status error with code Unimplemented without running anything; no name panics.
func Verif_C12_InProc() {
	hooks := &verifHooks{}
	ch := verifChannel(hooks)
	name := zv.String("method", zv.Param("namecap", 5))
	viaStream := zv.Choose("entry-point-stream", 2) == 1
	ctx, cancel := context.WithCancel(context.Background())
	defer cancel()

	var err error
	if !viaStream {
		err = ch.Invoke(ctx, name, &verifMsg{}, &verifMsg{})
	} else {
		var cs grpc.ClientStream
		cs, err = ch.NewStream(ctx, &grpc.StreamDesc{ServerStreams: true, ClientStreams: true}, name)
		if err == nil {
			zv.Assert(cs.CloseSend() == nil, "close-send-ok")
			rerr := cs.RecvMsg(&verifMsg{})
			zv.Assert(rerr == io.EOF, "stream-ends-cleanly")
		}
	}
	n := len(hooks.Ran)
	zv.Assert(n <= 1, "at-most-one-handler-runs")
	if n == 1 {
		zv.Reach("handler-ran")
		tag := hooks.Ran[0]
		zv.Observe("ran", name, tag, viaStream)
		zv.Assert(err == nil, "matched-call-succeeds")
		// the name is exactly the handler's, and the entry point matches its kind
		zv.Assert(zv.Or(name == "/"+tag, name == tag), "handler-ran-only-for-its-own-name")
		isUnaryTag := tag == "a/U" || tag == "b/U"
		zv.Assert(isUnaryTag == !viaStream, "entry-point-matches-method-kind")
		return
	}
	zv.Reach("no-handler")
	zv.Observe("rejected", name, viaStream)
	// completeness: a registered name on the right entry point must have run
	registered := false
	for _, svc := range []string{"a", "b"} {
		if !viaStream {
			registered = zv.Or(registered, verifNameIs(name, svc, "U"))
		} else {
			for _, m := range []string{"S", "C", "R"} {
				registered = zv.Or(registered, verifNameIs(name, svc, m))
			}
		}
	}
	zv.Assert(!registered, "registered-name-runs-its-handler")
	zv.Assert(err != nil, "unknown-name-fails")
	if err != nil {
		st, ok := status.FromError(err)
		zv.Assert(ok, "unknown-name-gives-status-error")
		if ok {
			zv.Assert(st.Code() == codes.Unimplemented, "unknown-name-gives-Unimplemented")
		}
	}
}
