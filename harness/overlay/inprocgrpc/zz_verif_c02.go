//go:build verif

package inprocgrpc

import (
	"context"
	"io"

	"google.golang.org/grpc"
	"google.golang.org/grpc/codes"
	"google.golang.org/grpc/status"

	"github.com/fullstorydev/grpchan/internal/zzfix"
	zv "github.com/fullstorydev/grpchan/internal/zzverif"
)

// Verif_C02_InProcEndedContext: a streaming handler sends 0..1 messages, waits for
// the call's context to end and returns an error status. The client receives what
// was sent, ends the context (cancel) while it is between receives, lets the
// handler finish, and receives again: the outcome is a status (the handler's, or
// the cancellation), never a clean end of stream, because the handler did not end
// the call successfully.
func Verif_C02_InProcEndedContext() {
	sends := zv.Choose("handler-sends", 2)
	mtd := []string{"S", "R"}[zv.Choose("method", 2)]
	hooks := &verifHooks{}
	hooks.Stream = func(tag string, ss grpc.ServerStream) error {
		if mtd == "R" {
			ss.RecvMsg(&verifMsg{})
		}
		for i := 0; i < sends; i++ {
			ss.SendMsg(&verifMsg{Count: int32(i + 1)})
		}
		<-ss.Context().Done()
		return status.Error(codes.Aborted, "handler gave up")
	}
	ch := verifChannel(hooks)
	ctx, cancel := context.WithCancel(context.Background())
	defer cancel()
	cs, err := ch.NewStream(ctx, zzfix.StreamDescOf(mtd), "/a/"+mtd)
	if err != nil {
		zv.Fail("stream-created")
		return
	}
	if mtd == "R" {
		cs.SendMsg(&verifMsg{})
		cs.CloseSend()
	}
	for i := 0; i < sends; i++ {
		if e := cs.RecvMsg(&verifMsg{}); e != nil {
			zv.Fail("sent-message-received")
			return
		}
	}
	cancel()
	zv.Quiesce() // the handler notices, returns its error, the library winds the call down
	var final error
	for i := 0; i < 3; i++ {
		if final = cs.RecvMsg(&verifMsg{}); final != nil {
			break
		}
	}
	zv.Reach("outcome")
	zv.Assert(final != nil, "receive-reports-an-outcome")
	zv.Assert(final != io.EOF, "failed-call-never-reported-as-clean-end-of-stream")
	c := status.Code(final)
	zv.Assert(c == codes.Aborted || c == codes.Canceled, "outcome-is-the-handlers-status-or-the-cancellation")
	zv.CheckLeaks()
}
