//go:build verif

package inprocgrpc

import (
	"context"

	"google.golang.org/grpc/metadata"

	zv "github.com/fullstorydev/grpchan/internal/zzverif"
)

// Verif_C10_UnaryEarlyReturn: a unary call whose context may end at any scheduling
// point, so that Invoke may return while the handler goroutine has not started (or
// is still running). Once Invoke has returned the caller's outgoing metadata map is
// the caller's again; what it does to it then must not reach the handler, which
// sees the request metadata as of the call.
func Verif_C10_UnaryEarlyReturn() {
	outMD := metadata.Pairs("k", "orig")
	ctx, cancel := zv.EndableContext(false)
	defer cancel()
	callerCtx := metadata.NewOutgoingContext(ctx, outMD)
	hooks := &verifHooks{}
	ran := 0
	hooks.Unary = func(tag string, hctx context.Context, req *verifMsg) (*verifMsg, error) {
		ran++
		in, ok := metadata.FromIncomingContext(hctx)
		zv.Assert(ok, "handler-has-incoming-metadata")
		zv.Assert(len(in["k"]) == 1 && in["k"][0] == "orig" && len(in["added-later"]) == 0, "handler-sees-request-metadata-as-of-the-call")
		return &verifMsg{}, nil
	}
	ch := verifChannel(hooks)
	err := ch.Invoke(callerCtx, "/a/U", &verifMsg{}, &verifMsg{})
	outMD["k"][0] = "changed-after-the-call"
	outMD["added-later"] = []string{"x"}
	zv.Quiesce() // let the handler goroutine (if still running) finish
	zv.Reach("returned")
	_, _ = err, ran // (whether the call completed is schedule-dependent: not observed)
}
