//go:build verif

package inprocgrpc

import (
	"context"
	"fmt"
	"io"
	"time"

	"google.golang.org/grpc"
	"google.golang.org/grpc/codes"
	"google.golang.org/grpc/metadata"
	"google.golang.org/grpc/peer"
	"google.golang.org/grpc/status"

	"github.com/fullstorydev/grpchan/internal/zzfix"
	zv "github.com/fullstorydev/grpchan/internal/zzverif"
)

type verifKeyStruct struct{ n int }

var verifPtrKey = new(int)

// verifCallerKeys: the kinds of context keys a caller may have used, including the
// keys gRPC itself uses (outgoing metadata, incoming metadata and the server
// transport stream of an enclosing handler).
func verifWithKey(ctx context.Context, kind int, val string) (context.Context, func(context.Context) interface{}) {
	switch kind {
	case 0:
		return context.WithValue(ctx, "string-key", val), func(c context.Context) interface{} { return c.Value("string-key") }
	case 1:
		return context.WithValue(ctx, verifKeyStruct{7}, val), func(c context.Context) interface{} { return c.Value(verifKeyStruct{7}) }
	case 2:
		return context.WithValue(ctx, verifPtrKey, val), func(c context.Context) interface{} { return c.Value(verifPtrKey) }
	case 3:
		// an enclosing handler's incoming metadata
		return metadata.NewIncomingContext(ctx, metadata.Pairs("outer-in", val)), func(c context.Context) interface{} {
			md, _ := metadata.FromIncomingContext(c)
			if len(md["outer-in"]) > 0 {
				return md["outer-in"][0]
			}
			return nil
		}
	default:
		// an enclosing handler's server transport stream
		sts := &verifOuterSTS{}
		return grpc.NewContextWithServerTransportStream(ctx, sts), func(c context.Context) interface{} {
			if s := grpc.ServerTransportStreamFromContext(c); s != nil {
				if _, ok := s.(*verifOuterSTS); ok {
					return "outer-sts"
				}
			}
			return nil
		}
	}
}

type verifOuterSTS struct{}

func (*verifOuterSTS) Method() string               { return "/outer/Method" }
func (*verifOuterSTS) SetHeader(metadata.MD) error  { return nil }
func (*verifOuterSTS) SendHeader(metadata.MD) error { return nil }
func (*verifOuterSTS) SetTrailer(metadata.MD) error { return nil }

// Verif_C10_HandlerContext: caller context = a chain of up to 3 WithValue layers
// with keys of every kind (string, struct, pointer, gRPC's incoming metadata and
// server transport stream keys), outgoing metadata, optional deadline; unary and
// streaming; with and without a transport interceptor.
func Verif_C10_HandlerContext() {
	depth := zv.Choose("chain-depth", zv.Param("chain", 2)+1)
	streaming := zv.Bool("streaming")
	withInterceptor := zv.Bool("with-interceptor")
	withDeadline := zv.Bool("with-deadline")
	mdVal := zv.String("md-value", zv.Param("mdcap", 1))
	callerMutates := zv.Bool("caller-mutates-metadata-after-the-call")

	callerCtx := context.Background()
	var dl time.Time
	var cancel context.CancelFunc = func() {}
	if withDeadline {
		dl = time.Unix(4000000000, 0)
		callerCtx, cancel = context.WithDeadline(callerCtx, dl)
	}
	defer cancel()
	var readers []func(context.Context) interface{}
	for i := 0; i < depth; i++ {
		k := zv.Choose(fmt.Sprintf("key-kind#%d", i), 5)
		var rd func(context.Context) interface{}
		callerCtx, rd = verifWithKey(callerCtx, k, fmt.Sprintf("v%d", i))
		readers = append(readers, rd)
	}
	outMD := metadata.Pairs("k", mdVal, "k", "second", "other-bin", "\x00\xff")
	callerCtx = metadata.NewOutgoingContext(callerCtx, outMD)

	hooks := &verifHooks{}
	checked := 0
	check := func(ctx context.Context) {
		checked++
		for _, rd := range readers {
			zv.Assert(rd(ctx) == nil, "handler-sees-no-caller-context-value")
		}
		_, hasOut := metadata.FromOutgoingContext(ctx)
		zv.Assert(!hasOut, "handler-has-no-outgoing-metadata")
		in, ok := metadata.FromIncomingContext(ctx)
		zv.Assert(ok, "handler-has-incoming-metadata")
		zv.Assert(len(in["k"]) == 2 && in["k"][0] == mdVal && in["k"][1] == "second", "incoming-metadata-equals-callers-outgoing")
		zv.Assert(len(in["other-bin"]) == 1 && in["other-bin"][0] == "\x00\xff", "binary-metadata-byte-exact")
		zv.Assert(len(in["outer-in"]) == 0, "enclosing-handlers-incoming-metadata-not-inherited")
		zv.Assert(len(in["added-later"]) == 0, "callers-later-metadata-changes-invisible")
		// mutating the handler's copy must not reach the caller
		in["k"][0] = "mutated-by-handler"
		in["added"] = []string{"x"}
		p, ok := peer.FromContext(ctx)
		zv.Assert(ok && p.Addr != nil && p.Addr.Network() == "inproc" && p.AuthInfo != nil, "handler-sees-in-process-peer")
		hdl, hasDL := ctx.Deadline()
		zv.Assert(hasDL == withDeadline, "deadline-presence-propagates")
		if withDeadline && hasDL {
			zv.Assert(hdl.Equal(dl), "deadline-equal")
		}
		// the sanctioned back door
		cc := ClientContext(ctx)
		zv.Assert(cc != nil, "client-context-available")
		if cc != nil {
			for i, rd := range readers {
				v := rd(cc)
				_ = i
				zv.Assert(v != nil, "client-context-exposes-caller-values")
			}
		}
		// the handler's own transport stream is the call's, not an enclosing one
		sts := grpc.ServerTransportStreamFromContext(ctx)
		zv.Assert(sts != nil, "handler-has-its-own-transport-stream")
		if sts != nil {
			_, outer := sts.(*verifOuterSTS)
			zv.Assert(!outer, "handler-has-its-own-transport-stream")
		}
	}
	hooks.Unary = func(tag string, ctx context.Context, req *verifMsg) (*verifMsg, error) {
		check(ctx)
		return &verifMsg{}, nil
	}
	hooks.Stream = func(tag string, ss grpc.ServerStream) error {
		check(ss.Context())
		return nil
	}
	ch := verifChannel(hooks)
	if withInterceptor {
		ch.WithServerUnaryInterceptor(func(ctx context.Context, req interface{}, info *grpc.UnaryServerInfo, handler grpc.UnaryHandler) (interface{}, error) {
			return handler(ctx, req)
		})
		ch.WithServerStreamInterceptor(func(srv interface{}, ss grpc.ServerStream, info *grpc.StreamServerInfo, handler grpc.StreamHandler) error {
			return handler(srv, ss)
		})
	}
	var err error
	if !streaming {
		err = ch.Invoke(callerCtx, "/a/U", &verifMsg{}, &verifMsg{})
	} else {
		var cs grpc.ClientStream
		cs, err = ch.NewStream(callerCtx, zzfix.StreamDescOf("S"), "/a/S")
		if err == nil {
			if callerMutates {
				// the call has been made: what the caller does to its metadata map
				// afterwards must not reach the handler
				outMD["k"][0] = "changed-after-the-call"
				outMD["added-later"] = []string{"x"}
			}
			cs.CloseSend()
			err = cs.RecvMsg(&verifMsg{})
			if err == io.EOF {
				err = nil
			}
		}
	}
	if withDeadline && status.Code(err) == codes.DeadlineExceeded {
		// the abstract clock let the deadline fire during the call: not this
		// harness's subject (see C04)
		zv.Cut("deadline fired during the call")
	}
	zv.Reach("called")
	zv.Observe("call", streaming, err == nil, checked)
	zv.Assert(err == nil && checked == 1, "handler-ran-once")
	// the caller's metadata is untouched by the handler's mutation
	if !(streaming && callerMutates) {
		zv.Assert(len(outMD["k"]) == 2 && outMD["k"][0] == mdVal && len(outMD["added"]) == 0, "callers-metadata-unaffected-by-handler")
	}
}

type verifNestedKey struct{}

// Verif_C10_NestedCall: a handler makes another in-process call with its own
// handler context (plus a value of its own and outgoing metadata of its own). The
// inner handler must see none of the outer handler's context values, not the outer
// call's incoming metadata, and exactly the outgoing metadata of the nested call.
func Verif_C10_NestedCall() {
	innerStreaming := zv.Bool("inner-call-streaming")
	outerStreaming := zv.Bool("outer-call-streaming")
	innerHasMD := zv.Bool("nested-call-has-outgoing-metadata")
	hooks := &verifHooks{}
	var ch *Channel
	innerChecked := 0
	checkInner := func(ctx context.Context) {
		innerChecked++
		zv.Assert(ctx.Value(verifNestedKey{}) == nil, "inner-handler-sees-no-value-of-the-outer-handler")
		zv.Assert(ctx.Value("client-key") == nil, "inner-handler-sees-no-value-of-the-original-caller")
		in, _ := metadata.FromIncomingContext(ctx)
		zv.Assert(len(in["outer-md"]) == 0, "outer-calls-metadata-not-inherited-by-the-nested-call")
		if innerHasMD {
			zv.Assert(len(in["inner-md"]) == 1 && in["inner-md"][0] == "i", "inner-handler-sees-the-nested-calls-metadata")
		} else {
			zv.Assert(len(in["inner-md"]) == 0, "inner-handler-sees-no-metadata")
		}
		_, hasOut := metadata.FromOutgoingContext(ctx)
		zv.Assert(!hasOut, "inner-handler-has-no-outgoing-metadata")
		cc := ClientContext(ctx)
		zv.Assert(cc != nil && cc.Value(verifNestedKey{}) == "outer-value", "client-context-of-the-nested-call-is-the-outer-handlers-context")
	}
	nested := func(ctx context.Context) error {
		ctx = context.WithValue(ctx, verifNestedKey{}, "outer-value")
		if innerHasMD {
			ctx = metadata.NewOutgoingContext(ctx, metadata.Pairs("inner-md", "i"))
		}
		if !innerStreaming {
			return ch.Invoke(ctx, "/b/U", &verifMsg{}, &verifMsg{})
		}
		cs, err := ch.NewStream(ctx, zzfix.StreamDescOf("S"), "/b/S")
		if err != nil {
			return err
		}
		cs.CloseSend()
		if e := cs.RecvMsg(&verifMsg{}); e != io.EOF {
			return e
		}
		return nil
	}
	hooks.Unary = func(tag string, ctx context.Context, req *verifMsg) (*verifMsg, error) {
		if tag == "b/U" {
			checkInner(ctx)
			return &verifMsg{}, nil
		}
		return &verifMsg{}, nested(ctx)
	}
	hooks.Stream = func(tag string, ss grpc.ServerStream) error {
		if tag == "b/S" {
			checkInner(ss.Context())
			return nil
		}
		return nested(ss.Context())
	}
	ch = verifChannel(hooks)
	ctx := context.WithValue(context.Background(), "client-key", "client-value")
	ctx = metadata.NewOutgoingContext(ctx, metadata.Pairs("outer-md", "o"))
	var err error
	if !outerStreaming {
		err = ch.Invoke(ctx, "/a/U", &verifMsg{}, &verifMsg{})
	} else {
		var cs grpc.ClientStream
		cs, err = ch.NewStream(ctx, zzfix.StreamDescOf("S"), "/a/S")
		if err == nil {
			cs.CloseSend()
			err = cs.RecvMsg(&verifMsg{})
			if err == io.EOF {
				err = nil
			}
		}
	}
	zv.Reach("nested-call-made")
	zv.Observe("nested", outerStreaming, innerStreaming, err == nil, innerChecked)
	zv.Assert(err == nil && innerChecked == 1, "nested-call-ran-once")
}
