//go:build verif

package inprocgrpc

import (
	"bytes"

	"google.golang.org/grpc/encoding"
	grpcproto "google.golang.org/grpc/encoding/proto"
	"google.golang.org/protobuf/proto"
	"google.golang.org/protobuf/types/known/anypb"

	"github.com/fullstorydev/grpchan/internal"
	zv "github.com/fullstorydev/grpchan/internal/zzverif"
)

// verifSymMsg builds a message with symbolic content: bytes, scalars, a map entry
// and 0..2 nested Any details.
func verifSymMsg(prefix string, m *verifMsg, small bool) *verifMsg {
	m.Count = zv.Int32(prefix + "count")
	if small {
		// the unknown-field cases: one symbolic payload byte and a symbolic scalar
		m.Payload = zv.Bytes(prefix+"payload", 1)
		return m
	}
	m.Payload = zv.Bytes(prefix+"payload", zv.Param("payloadcap", 2))
	m.Code = zv.Int32(prefix + "code")
	if zv.Bool(prefix + "has-header") {
		m.Headers = map[string][]byte{"h": zv.Bytes(prefix+"hv", 1)}
	}
	n := zv.Choose(prefix+"details", zv.Param("maxdetails", 1)+1)
	for i := 0; i < n; i++ {
		m.ErrorDetails = append(m.ErrorDetails, &anypb.Any{TypeUrl: "t", Value: zv.Bytes(prefix+"detail"+string(rune('0'+i)), 1)})
	}
	return m
}

// verifBase returns an empty message, or one holding only the unknown field raw
// (decoded from the wire, as the runtime would have received it).
func verifBase(raw []byte) *verifMsg {
	m := &verifMsg{}
	if raw != nil {
		if err := proto.Unmarshal(raw, m); err != nil {
			zv.Fail("unknown-field-bytes-decode")
		}
	}
	return m
}

func verifMsgEqual(a, b *verifMsg) bool {
	eq := zv.And(bytes.Equal(a.Payload, b.Payload), zv.And(a.Count == b.Count, a.Code == b.Code))
	eq = zv.And(eq, a.DelayMillis == b.DelayMillis)
	eq = zv.And(eq, len(a.Headers) == len(b.Headers) && len(a.Trailers) == len(b.Trailers) && len(a.ErrorDetails) == len(b.ErrorDetails))
	if len(a.Headers) == len(b.Headers) {
		for k, v := range a.Headers {
			eq = zv.And(eq, bytes.Equal(b.Headers[k], v))
		}
	}
	if len(a.ErrorDetails) == len(b.ErrorDetails) {
		for i := range a.ErrorDetails {
			eq = zv.And(eq, a.ErrorDetails[i].TypeUrl == b.ErrorDetails[i].TypeUrl && bytes.Equal(a.ErrorDetails[i].Value, b.ErrorDetails[i].Value))
		}
	}
	return eq
}

// verifScramble mutates every mutable part of m in place.
func verifScramble(m *verifMsg) {
	for i := range m.Payload {
		m.Payload[i] ^= 0xff
	}
	m.Count++
	m.Code--
	for k, v := range m.Headers {
		for i := range v {
			v[i] ^= 0xff
		}
		_ = k
	}
	if m.Headers != nil {
		m.Headers["extra"] = []byte("x")
	}
	for _, d := range m.ErrorDetails {
		d.TypeUrl = "scrambled"
		for i := range d.Value {
			d.Value[i] ^= 0xff
		}
	}
}

func verifCloner(kind int) Cloner {
	switch kind {
	case 0:
		return ProtoCloner{}
	case 1:
		return CodecCloner(encoding.GetCodec(grpcproto.Name))
	case 2:
		return CloneFunc(internal.CloneMessage)
	default:
		return CopyFunc(internal.CopyMessage)
	}
}

// Verif_C18_Adapters: each of the four provided copy strategies, on a message with
// symbolic content, through Clone and through Copy into a pre-populated
// destination; plus the refusal cases.
func Verif_C18_Adapters() {
	kind := zv.Choose("adapter", 4)
	cl := verifCloner(kind)
	// a field the message type does not know (number 100, varint), as a message
	// from a newer peer carries it: the runtime keeps it with the message, and a
	// copy that is equal to the source carries it too
	var raw []byte
	if zv.Bool("src-has-unknown-field") {
		ub := zv.Bytes("src-unknown-value", 1)
		if len(ub) != 1 {
			return
		}
		zv.Assume(ub[0] < 0x80)
		raw = []byte{0xA0, 0x06, ub[0]}
	}
	// (the unknown-field dimension is explored with a small known part, the known
	// part in full without unknown fields: a sum, not a product)
	unknownFocus := raw != nil
	src := verifSymMsg("src-", verifBase(raw), unknownFocus)
	// an independent snapshot of the source, built from the same symbolic values
	snap := verifBase(raw)
	snap.Payload, snap.Count, snap.Code = append([]byte(nil), src.Payload...), src.Count, src.Code
	if src.Headers != nil {
		snap.Headers = map[string][]byte{"h": append([]byte(nil), src.Headers["h"]...)}
	}
	for _, d := range src.ErrorDetails {
		snap.ErrorDetails = append(snap.ErrorDetails, &anypb.Any{TypeUrl: d.TypeUrl, Value: append([]byte(nil), d.Value...)})
	}
	op := zv.Choose("operation", 2)
	var cp *verifMsg
	if op == 0 {
		c, err := cl.Clone(src)
		zv.Assert(err == nil, "clone-succeeds")
		if err != nil {
			return
		}
		var ok bool
		cp, ok = c.(*verifMsg)
		zv.Assert(ok && cp != src, "clone-is-a-new-message-of-the-same-type")
		if !ok {
			return
		}
		zv.Reach("cloned")
	} else {
		// destination with previous content that must disappear entirely
		var old []byte
		if unknownFocus && zv.Bool("dst-has-unknown-field") {
			old = []byte{0xA8, 0x06, 0x01} // field 101
		}
		cp = verifBase(old)
		cp.Payload, cp.Count, cp.DelayMillis = []byte{9, 9, 9}, 77, 5
		cp.Trailers = map[string][]byte{"old": []byte("x")}
		cp.ErrorDetails = []*anypb.Any{{TypeUrl: "old"}}
		if zv.Bool("dst-has-header") {
			cp.Headers = map[string][]byte{"old-h": []byte("x")}
		}
		err := cl.Copy(cp, src)
		zv.Assert(err == nil, "copy-succeeds")
		if err != nil {
			return
		}
		zv.Reach("copied")
	}
	zv.Observe("adapter", kind, op, len(cp.Payload))
	zv.Assert(verifMsgEqual(cp, snap), "copy-equals-source-with-no-residue")
	zv.Assert(verifMsgEqual(src, snap), "source-left-unchanged")
	// the encodings agree as well (this is where unknown fields show)
	if unknownFocus {
		eb, e1 := proto.Marshal(snap)
		cb, e2 := proto.Marshal(cp)
		zv.Assert(e1 == nil && e2 == nil && bytes.Equal(eb, cb), "copy-encodes-like-the-source")
	}
	// independence in both directions
	verifScramble(src)
	zv.Assert(verifMsgEqual(cp, snap), "copy-unaffected-by-later-source-mutation")
	// and the other way round: mutating the copy does not reach the (already
	// scrambled) source
	srcAfter := &verifMsg{Payload: append([]byte(nil), src.Payload...), Count: src.Count, Code: src.Code}
	verifScramble(cp)
	zv.Assert(bytes.Equal(src.Payload, srcAfter.Payload) && src.Count == srcAfter.Count, "source-unaffected-by-later-copy-mutation")
}

type verifNotProto struct{ X int }

// Verif_C18_Refusals: a destination of a different message type, and a pointer to
// something that is not a protobuf message, are refused with an error by every
// adapter that is built on the protobuf primitives.
func Verif_C18_Refusals() {
	kind := zv.Choose("adapter", 4)
	cl := verifCloner(kind)
	src := &verifMsg{Payload: []byte{1}, Count: 3}
	which := zv.Choose("case", 3)
	switch which {
	case 0:
		var dst anypb.Any
		dst.TypeUrl = "previous"
		err := cl.Copy(&dst, src)
		zv.Reach("mismatched-destination")
		if kind == 1 {
			// the codec-based strategy goes through bytes: cross-type decoding is the
			// codec's business; only "no panic" is required of the adapter
			return
		}
		zv.Assert(err != nil, "mismatched-destination-type-refused")
	case 1:
		np := &verifNotProto{X: 1}
		_, err := cl.Clone(np)
		zv.Reach("clone-non-proto")
		zv.Assert(err != nil, "non-proto-pointer-refused-by-clone")
	case 2:
		np := &verifNotProto{X: 1}
		err := cl.Copy(np, src)
		zv.Reach("copy-into-non-proto")
		zv.Assert(err != nil, "non-proto-destination-refused-by-copy")
		zv.Assert(np.X == 1, "refused-destination-untouched")
	}
}
