//go:build verif

package inprocgrpc

import (
	"google.golang.org/protobuf/types/known/anypb"

	"github.com/fullstorydev/grpchan/internal"
	zv "github.com/fullstorydev/grpchan/internal/zzverif"
)

// verifPopulated returns a destination full of previous content that a copy must
// make disappear entirely.
func verifPopulated() *verifMsg {
	cp := &verifMsg{}
	cp.Payload, cp.Count, cp.DelayMillis = []byte{9, 9, 9}, 77, 5
	cp.Trailers = map[string][]byte{"old": []byte("x")}
	cp.ErrorDetails = []*anypb.Any{{TypeUrl: "old"}}
	cp.Headers = map[string][]byte{"old-h": []byte("x")}
	return cp
}

// Verif_C18_Dynamic: generated and dynamic representations of the same message
// type copied into each other by the adapters built on the protobuf primitives
// (ProtoCloner, CopyFunc(CopyMessage)): the destination, pre-populated, ends up
// equal to the source with no residue; the source is unchanged; a dynamic message
// of another type is refused.
func Verif_C18_Dynamic() {
	var cl Cloner = ProtoCloner{}
	if zv.Bool("copyfunc-adapter") {
		cl = CopyFunc(internal.CopyMessage)
	}
	src := verifSymMsg("src-", &verifMsg{}, false)
	snap := &verifMsg{}
	snap.Payload, snap.Count, snap.Code = append([]byte(nil), src.Payload...), src.Count, src.Code
	if src.Headers != nil {
		snap.Headers = map[string][]byte{"h": append([]byte(nil), src.Headers["h"]...)}
	}
	for _, d := range src.ErrorDetails {
		snap.ErrorDetails = append(snap.ErrorDetails, &anypb.Any{TypeUrl: d.TypeUrl, Value: append([]byte(nil), d.Value...)})
	}
	dir := zv.Choose("direction", 4)
	out := &verifMsg{}
	switch dir {
	case 0: // generated -> dynamic
		dst := zv.DynOf(verifPopulated())
		err := cl.Copy(dst, src)
		zv.Assert(err == nil, "generated-into-dynamic-succeeds")
		if err != nil {
			return
		}
		verifScramble(src)
		if dst.ConvertTo(out) != nil {
			zv.Fail("dynamic-destination-converts-back")
		}
		zv.Reach("generated-into-dynamic")
	case 1: // dynamic -> generated
		dsrc := zv.DynOf(src)
		out = verifPopulated()
		err := cl.Copy(out, dsrc)
		zv.Assert(err == nil, "dynamic-into-generated-succeeds")
		if err != nil {
			return
		}
		// the dynamic source still holds the same message, also after the copy
		// has been mutated in place
		keep := &verifMsg{}
		keep.Payload, keep.Count, keep.Code = append([]byte(nil), out.Payload...), out.Count, out.Code
		if out.Headers != nil {
			keep.Headers = map[string][]byte{}
			for k, v := range out.Headers {
				keep.Headers[k] = append([]byte(nil), v...)
			}
		}
		keep.Trailers = out.Trailers
		keep.DelayMillis = out.DelayMillis
		for _, d := range out.ErrorDetails {
			keep.ErrorDetails = append(keep.ErrorDetails, &anypb.Any{TypeUrl: d.TypeUrl, Value: append([]byte(nil), d.Value...)})
		}
		verifScramble(out)
		out = keep
		back := &verifMsg{}
		if dsrc.ConvertTo(back) != nil {
			zv.Fail("dynamic-source-converts-back")
		}
		zv.Assert(verifMsgEqual(back, snap), "dynamic-source-left-unchanged")
		zv.Reach("dynamic-into-generated")
	case 2: // dynamic -> dynamic
		dsrc := zv.DynOf(src)
		dst := zv.DynOf(verifPopulated())
		err := cl.Copy(dst, dsrc)
		zv.Assert(err == nil, "dynamic-into-dynamic-succeeds")
		if err != nil {
			return
		}
		if dst.ConvertTo(out) != nil {
			zv.Fail("dynamic-destination-converts-back")
		}
		zv.Reach("dynamic-into-dynamic")
	default: // a dynamic message of another type is refused, in both positions
		other := zv.DynOf(&anypb.Any{TypeUrl: "t", Value: []byte{1}})
		if zv.Bool("other-type-is-destination") {
			err := cl.Copy(other, src)
			zv.Assert(err != nil, "dynamic-destination-of-another-type-refused")
		} else {
			dst := verifPopulated()
			err := cl.Copy(dst, other)
			zv.Assert(err != nil, "dynamic-source-of-another-type-refused")
		}
		zv.Reach("dynamic-mismatch")
		return
	}
	zv.Observe("dyn", dir, len(out.Payload), len(out.Headers), len(out.Trailers), len(out.ErrorDetails))
	zv.Assert(verifMsgEqual(out, snap), "copy-equals-source-with-no-residue")
	if dir != 0 {
		zv.Assert(verifMsgEqual(src, snap), "source-left-unchanged")
	}
}
