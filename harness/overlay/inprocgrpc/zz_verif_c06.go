//go:build verif

package inprocgrpc

import (
	"bytes"
	"context"
	"io"

	"google.golang.org/grpc"
	"google.golang.org/protobuf/types/known/anypb"

	"github.com/fullstorydev/grpchan/internal/zzfix"
	zv "github.com/fullstorydev/grpchan/internal/zzverif"
)

func verifC06Msg(prefix string) (*verifMsg, *verifMsg) {
	var p, d []byte
	if zv.Param("fixedlen", 0) == 1 {
		// quick tier: lengths fixed, contents symbolic
		p = zv.BytesN(prefix+"payload", zv.Param("payloadcap", 2))
		d = zv.BytesN(prefix+"detail", 1)
	} else {
		p = zv.Bytes(prefix+"payload", zv.Param("payloadcap", 2))
		d = zv.Bytes(prefix+"detail", 1)
	}
	c := zv.Int32(prefix + "count")
	mk := func() *verifMsg {
		return &verifMsg{Payload: append([]byte(nil), p...), Count: c,
			ErrorDetails: []*anypb.Any{{TypeUrl: "t", Value: append([]byte(nil), d...)}}}
	}
	return mk(), mk() // the message and an independent snapshot of it
}

func verifC06Equal(a, b *verifMsg) bool {
	eq := zv.And(bytes.Equal(a.Payload, b.Payload), a.Count == b.Count)
	eq = zv.And(eq, a.Code == b.Code && a.DelayMillis == b.DelayMillis && len(a.Headers) == len(b.Headers) && len(a.Trailers) == len(b.Trailers))
	eq = zv.And(eq, len(a.ErrorDetails) == len(b.ErrorDetails))
	if len(a.ErrorDetails) == len(b.ErrorDetails) {
		for i := range a.ErrorDetails {
			eq = zv.And(eq, a.ErrorDetails[i].TypeUrl == b.ErrorDetails[i].TypeUrl && bytes.Equal(a.ErrorDetails[i].Value, b.ErrorDetails[i].Value))
		}
	}
	return eq
}

func verifC06Channel(hooks *verifHooks) *Channel {
	ch := verifChannel(hooks)
	switch zv.Choose("cloner", 4) {
	case 1:
		ch.WithCloner(verifCloner(1))
	case 2:
		ch.WithCloner(verifCloner(2))
	case 3:
		ch.WithCloner(verifCloner(3))
	}
	return ch
}

// Verif_C06_Unary: request and response of a unary in-process call share no
// mutable memory with the peer's objects, whichever side mutates afterwards; the
// response destination is overwritten, not merged; and once Invoke has returned
// (also early, on cancellation) the library no longer reads the caller's request.
func Verif_C06_Unary() {
	withCancel := zv.Bool("call-may-be-cancelled")
	req, reqSnap := verifC06Msg("req-")
	hresp, hrespSnap := verifC06Msg("resp-")
	hooks := &verifHooks{}
	handlerSaw := false
	hooks.Unary = func(tag string, ctx context.Context, r *verifMsg) (*verifMsg, error) {
		handlerSaw = true
		// whatever the caller did to its request after handing it over is invisible
		zv.Assert(verifC06Equal(r, reqSnap), "handler-receives-the-request-as-it-was-when-the-call-was-made")
		verifScramble(r) // a handler may mutate what it received
		return hresp, nil
	}
	ch := verifC06Channel(hooks)
	var ctx context.Context
	var cancel context.CancelFunc
	if withCancel {
		ctx, cancel = zv.EndableContext(false)
	} else {
		ctx, cancel = context.WithCancel(context.Background())
	}
	defer cancel()
	resp := &verifMsg{Payload: []byte{9, 9, 9}, Count: 77, DelayMillis: 5, Trailers: map[string][]byte{"old": []byte("x")}}
	err := ch.Invoke(ctx, "/a/U", req, resp)
	// the call has returned: the caller may reuse its request at once
	if err != nil {
		zv.Reach("returned-early")
		verifScramble(req)
		// nor does it write the caller's response message any more: the caller may
		// reuse it (e.g. for a retry) as soon as the call has returned
		atReturn := &verifMsg{Payload: append([]byte(nil), resp.Payload...), Count: resp.Count, Code: resp.Code, DelayMillis: resp.DelayMillis}
		for k, v := range resp.Trailers {
			if atReturn.Trailers == nil {
				atReturn.Trailers = map[string][]byte{}
			}
			atReturn.Trailers[k] = v
		}
		for k, v := range resp.Headers {
			if atReturn.Headers == nil {
				atReturn.Headers = map[string][]byte{}
			}
			atReturn.Headers[k] = v
		}
		for _, d := range resp.ErrorDetails {
			atReturn.ErrorDetails = append(atReturn.ErrorDetails, &anypb.Any{TypeUrl: d.TypeUrl, Value: append([]byte(nil), d.Value...)})
		}
		zv.Quiesce() // let the handler goroutine (if still running) finish
		zv.Assert(verifC06Equal(resp, atReturn), "response-message-not-written-after-the-call-returned")
		_ = handlerSaw
		return
	}
	zv.Reach("returned-ok")
	zv.Assert(verifC06Equal(req, reqSnap), "callers-request-unaffected-by-handler-mutation")
	zv.Assert(verifC06Equal(resp, hrespSnap), "response-destination-overwritten-with-exactly-the-response")
	verifScramble(resp)
	zv.Assert(verifC06Equal(hresp, hrespSnap), "handlers-response-unaffected-by-caller-mutation")
	verifScramble(hresp)
	verifScramble(req)
}

// Verif_C06_Stream: the same for stream sends and receives in both directions.
func Verif_C06_Stream() {
	mtd := []string{"S", "R"}[zv.Choose("method", 2)]
	c2s, c2sSnap := verifC06Msg("c2s-")
	s2c, s2cSnap := verifC06Msg("s2c-")
	hooks := &verifHooks{}
	hooks.Stream = func(tag string, ss grpc.ServerStream) error {
		r := &verifMsg{Payload: []byte{8, 8}, Count: 66, Trailers: map[string][]byte{"old": []byte("x")}}
		if err := ss.RecvMsg(r); err != nil {
			zv.Fail("handler-receives")
			return nil
		}
		zv.Assert(verifC06Equal(r, c2sSnap), "handler-receives-the-message-as-sent-with-no-residue")
		verifScramble(r)
		if err := ss.SendMsg(s2c); err != nil {
			zv.Fail("handler-sends")
			return nil
		}
		verifScramble(s2c) // reuse after the send returned
		return nil
	}
	ch := verifC06Channel(hooks)
	ctx, cancel := context.WithCancel(context.Background())
	defer cancel()
	cs, err := ch.NewStream(ctx, zzfix.StreamDescOf(mtd), "/a/"+mtd)
	if err != nil {
		zv.Fail("stream-created")
		return
	}
	if err := cs.SendMsg(c2s); err != nil {
		zv.Fail("client-sends")
		return
	}
	verifScramble(c2s) // reuse after the send returned
	cs.CloseSend()
	got := &verifMsg{Payload: []byte{7}, Count: 55, Headers: map[string][]byte{"old": []byte("x")}}
	if err := cs.RecvMsg(got); err != nil {
		zv.Fail("client-receives")
		return
	}
	zv.Reach("exchanged")
	zv.Assert(verifC06Equal(got, s2cSnap), "client-receives-the-message-as-sent-with-no-residue")
	verifScramble(got)
	e := cs.RecvMsg(&verifMsg{})
	zv.Assert(e == io.EOF, "stream-ends")
}
