//go:build verif

// Package zzfix is the service fixture shared by the in-process and HTTP
// harnesses: small services whose handlers have the shape protoc-gen-go-grpc
// generates, with behaviour supplied by the harness through hooks.
package zzfix

import (
	"context"

	"google.golang.org/grpc"

	"github.com/fullstorydev/grpchan/grpchantesting"
)

type Msg = grpchantesting.Message

type Server interface {
	VerifMark()
}

type Srv struct {
	Name  string
	Hooks *Hooks
}

func (*Srv) VerifMark() {}

// Hooks is the handler behaviour of one harness run.
type Hooks struct {
	// Ran lists "<service>/<method>" for every handler invocation.
	Ran    []string
	Unary  func(tag string, ctx context.Context, req *Msg) (*Msg, error)
	Stream func(tag string, ss grpc.ServerStream) error
	// UnaryInfo / StreamInfo record what interceptors were told.
	Events []string
}

func (h *Hooks) runUnary(s *Srv, mtd string, ctx context.Context, req *Msg) (*Msg, error) {
	tag := s.Name + "/" + mtd
	h.Ran = append(h.Ran, tag)
	h.Events = append(h.Events, "handler:"+tag)
	if h.Unary != nil {
		return h.Unary(tag, ctx, req)
	}
	return &Msg{}, nil
}

func (h *Hooks) runStream(s *Srv, mtd string, ss grpc.ServerStream) error {
	tag := s.Name + "/" + mtd
	h.Ran = append(h.Ran, tag)
	h.Events = append(h.Events, "handler:"+tag)
	if h.Stream != nil {
		return h.Stream(tag, ss)
	}
	return nil
}

func UnaryHandler(mtd string) func(srv interface{}, ctx context.Context, dec func(interface{}) error, interceptor grpc.UnaryServerInterceptor) (interface{}, error) {
	return func(srv interface{}, ctx context.Context, dec func(interface{}) error, interceptor grpc.UnaryServerInterceptor) (interface{}, error) {
		in := new(Msg)
		if err := dec(in); err != nil {
			return nil, err
		}
		s := srv.(*Srv)
		if interceptor == nil {
			return s.Hooks.runUnary(s, mtd, ctx, in)
		}
		info := &grpc.UnaryServerInfo{Server: srv, FullMethod: "/" + s.Name + "/" + mtd}
		handler := func(ctx context.Context, req interface{}) (interface{}, error) {
			return s.Hooks.runUnary(s, mtd, ctx, req.(*Msg))
		}
		return interceptor(ctx, in, info, handler)
	}
}

func StreamHandler(mtd string) grpc.StreamHandler {
	return func(srv interface{}, ss grpc.ServerStream) error {
		s := srv.(*Srv)
		return s.Hooks.runStream(s, mtd, ss)
	}
}

// Desc describes a service with one unary method "U" and three streaming
// methods: "S" (bidi), "C" (client streaming), "R" (server streaming).
func Desc(name string) *grpc.ServiceDesc {
	return &grpc.ServiceDesc{
		ServiceName: name,
		HandlerType: (*Server)(nil),
		Methods: []grpc.MethodDesc{
			{MethodName: "U", Handler: UnaryHandler("U")},
		},
		Streams: []grpc.StreamDesc{
			{StreamName: "S", Handler: StreamHandler("S"), ServerStreams: true, ClientStreams: true},
			{StreamName: "C", Handler: StreamHandler("C"), ClientStreams: true},
			{StreamName: "R", Handler: StreamHandler("R"), ServerStreams: true},
		},
		Metadata: name + ".proto",
	}
}

// StreamDescOf returns the client-side stream descriptor of method mtd.
func StreamDescOf(mtd string) *grpc.StreamDesc {
	switch mtd {
	case "S":
		return &grpc.StreamDesc{StreamName: "S", ServerStreams: true, ClientStreams: true}
	case "C":
		return &grpc.StreamDesc{StreamName: "C", ClientStreams: true}
	case "R":
		return &grpc.StreamDesc{StreamName: "R", ServerStreams: true}
	}
	return nil
}

// UnaryInt returns a server interceptor that records its invocation in Events
// and either forwards or short-circuits with the given error.
func (h *Hooks) UnaryInt(name string, forward bool, shortErr error, check func(info *grpc.UnaryServerInfo)) grpc.UnaryServerInterceptor {
	return func(ctx context.Context, req interface{}, info *grpc.UnaryServerInfo, handler grpc.UnaryHandler) (interface{}, error) {
		h.Events = append(h.Events, name)
		if check != nil {
			check(info)
		}
		if !forward {
			return nil, shortErr
		}
		return handler(ctx, req)
	}
}

func (h *Hooks) StreamInt(name string, forward bool, shortErr error, check func(info *grpc.StreamServerInfo)) grpc.StreamServerInterceptor {
	return func(srv interface{}, ss grpc.ServerStream, info *grpc.StreamServerInfo, handler grpc.StreamHandler) error {
		h.Events = append(h.Events, name)
		if check != nil {
			check(info)
		}
		if !forward {
			return shortErr
		}
		return handler(srv, ss)
	}
}
