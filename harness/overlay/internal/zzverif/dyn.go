//go:build verif

package zzverif

import (
	protov1 "github.com/golang/protobuf/proto"
	"github.com/jhump/protoreflect/dynamic"
)

// DynOf returns the dynamic representation (jhump/protoreflect) of the generated
// message m: a new *dynamic.Message of m's message type with m's content. In the
// engine this is the dynamic-message model (a box around a copy of m). The
// conversion itself would share m's byte slices and nested messages, so m is
// deep-copied first: the result is independent of m.
func DynOf(m interface{}) *dynamic.Message {
	dm, err := dynamic.AsDynamicMessage(protov1.Clone(m.(protov1.Message)))
	if err != nil {
		panic("zzverif.DynOf: " + err.Error())
	}
	return dm
}
