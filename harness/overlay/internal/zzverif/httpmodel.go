//go:build verif

package zzverif

// Models of the net/http and net/url entry points grpchan's client calls. They
// are executed symbolically by the engine in place of the library (which parses
// and escapes with tables, sync.Once and unsafe string building).
//
// Contract: a URL's textual form is scheme://host/path with the path passed
// through unchanged (percent-escaping and its inverse are net/url's and are assumed
// to round-trip); http.NewRequest parses exactly that form back.

import (
	"context"
	"errors"
	"io"
	"net/http"
	"net/url"
	"strings"
)

//verif:model (*net/url.URL).String
func mURLString(u *url.URL) string {
	s := ""
	if u.Scheme != "" {
		s = u.Scheme + ":"
	}
	if u.Scheme != "" || u.Host != "" {
		s += "//" + u.Host
	}
	p := u.Path
	if p != "" && p[0] != '/' && u.Host != "" {
		s += "/"
	}
	return s + p
}

func mParseURL(s string) (*url.URL, error) {
	u := &url.URL{}
	rest := s
	if i := strings.Index(rest, "://"); i >= 0 {
		u.Scheme = rest[:i]
		rest = rest[i+3:]
		j := strings.Index(rest, "/")
		if j < 0 {
			u.Host = rest
			rest = ""
		} else {
			u.Host = rest[:j]
			rest = rest[j:]
		}
	}
	u.Path = rest
	return u, nil
}

//verif:model net/http.NewRequest
func mNewRequest(method, urlStr string, body io.Reader) (*http.Request, error) {
	if method == "" {
		method = "GET"
	}
	u, err := mParseURL(urlStr)
	if err != nil {
		return nil, err
	}
	rc, ok := body.(io.ReadCloser)
	if !ok && body != nil {
		rc = io.NopCloser(body)
	}
	req := &http.Request{
		Method:     method,
		URL:        u,
		Proto:      "HTTP/1.1",
		ProtoMajor: 1,
		ProtoMinor: 1,
		Header:     make(http.Header),
		Body:       rc,
		Host:       u.Host,
	}
	return req, nil
}

//verif:model net/http.NewRequestWithContext
func mNewRequestWithContext(ctx context.Context, method, urlStr string, body io.Reader) (*http.Request, error) {
	if ctx == nil {
		return nil, errors.New("net/http: nil Context")
	}
	r, err := mNewRequest(method, urlStr, body)
	if err != nil {
		return nil, err
	}
	return r.WithContext(ctx), nil
}

// mResolvePath is net/url's resolvePath (RFC 3986 §5.2.2–5.2.4) on unescaped paths.
func mResolvePath(base, ref string) string {
	var full string
	if ref == "" {
		full = base
	} else if ref[0] != '/' {
		i := strings.LastIndex(base, "/")
		full = base[:i+1] + ref
	} else {
		full = ref
	}
	if full == "" {
		return ""
	}
	dst := "/"
	first := true
	remaining := full
	elem := ""
	found := true
	for found {
		if i := strings.Index(remaining, "/"); i >= 0 {
			elem, remaining, found = remaining[:i], remaining[i+1:], true
		} else {
			elem, remaining, found = remaining, "", false
		}
		if elem == "." {
			first = false
			continue
		}
		if elem == ".." {
			str := dst[1:]
			index := strings.LastIndex(str, "/")
			dst = "/"
			if index == -1 {
				first = true
			} else {
				dst += str[:index]
			}
		} else {
			if !first {
				dst += "/"
			}
			dst += elem
			first = false
		}
	}
	if elem == "." || elem == ".." {
		dst += "/"
	}
	if len(dst) > 1 && dst[1] == '/' {
		dst = dst[1:]
	}
	return dst
}

//verif:model (*net/url.URL).ResolveReference
func mResolveReference(u *url.URL, ref *url.URL) *url.URL {
	r := *ref
	if ref.Scheme == "" {
		r.Scheme = u.Scheme
	}
	if ref.Scheme != "" || ref.Host != "" || ref.User != nil {
		r.Path = mResolvePath(ref.Path, "")
		return &r
	}
	if ref.Opaque != "" {
		r.User, r.Host, r.Path = nil, "", ""
		return &r
	}
	if ref.Path == "" && !ref.ForceQuery && ref.RawQuery == "" {
		r.RawQuery = u.RawQuery
		if ref.Fragment == "" {
			r.Fragment = u.Fragment
		}
	}
	r.Host = u.Host
	r.User = u.User
	r.Path = mResolvePath(u.Path, ref.Path)
	return &r
}
