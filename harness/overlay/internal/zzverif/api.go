//go:build verif

// Package zzverif is the harness API of the gosym symbolic executor and, at the
// same time, its native replay runtime.
//
// Under the engine every function below is intercepted by name and never runs:
// Int64/String/... return fresh symbolic values, Assert becomes a solver query,
// Choose forks the exploration, and so on. Compiled natively (go test -tags verif)
// the same functions read the solver's assignment from the replay file named by
// $VERIF_REPLAY, so a counterexample is an ordinary concrete run of the real code.
package zzverif

import (
	"encoding/hex"
	"encoding/json"
	"fmt"
	"os"
	"runtime"
	"strconv"
	"sync"
	"testing"
	"time"
)

type replayFile struct {
	Sched   []schedStep       `json:"sched"`
	Gors    []gorInfo         `json:"goroutines"`
	Harness string            `json:"harness"`
	Label   string            `json:"label"`
	Ints    map[string]string `json:"ints"`
	Bools   map[string]bool   `json:"bools"`
	Bytes   map[string]string `json:"bytes"`
	Choices map[string]int    `json:"choices"`
	Params  map[string]int    `json:"params"`
}

var (
	mu     sync.Mutex
	rf     replayFile
	failed []string
)

func out(format string, a ...interface{}) {
	fmt.Fprintf(os.Stdout, format+"\n", a...)
}

// RunReplay is the entry point of the generated replay test.
func RunReplay(t *testing.T, harnesses map[string]func()) {
	path := os.Getenv("VERIF_REPLAY")
	if path == "" {
		t.Skip("VERIF_REPLAY not set")
	}
	b, err := os.ReadFile(path)
	if err != nil {
		t.Fatal(err)
	}
	if err := json.Unmarshal(b, &rf); err != nil {
		t.Fatal(err)
	}
	h := harnesses[rf.Harness]
	if h == nil {
		t.Fatalf("no harness %q", rf.Harness)
	}
	initPin(rf.Sched, rf.Gors)
	before := runtime.NumGoroutine()
	done := make(chan struct{})
	go func() {
		defer close(done)
		registerMain()
		if pn != nil {
			defer pn.finish(0)
		}
		defer func() {
			if r := recover(); r != nil {
				if _, ok := r.(cutPanic); ok {
					out("VERIF-CUT")
					return
				}
				out("VERIF-PANIC %v", r)
			}
		}()
		h()
	}()
	select {
	case <-done:
	case <-time.After(20 * time.Second):
		out("VERIF-ASSERT-FAIL deadlock")
		out("VERIF-DONE")
		return
	}
	checkAlloc()
	// leak check: give library goroutines a moment to wind down
	leaked := true
	for i := 0; i < 200; i++ {
		if runtime.NumGoroutine() <= before {
			leaked = false
			break
		}
		time.Sleep(5 * time.Millisecond)
	}
	if leaked && leakCheck {
		out("VERIF-ASSERT-FAIL goroutine-leak")
	}
	out("VERIF-DONE")
}

var leakCheck bool

// CheckLeaks enables the goroutine-leak verdict for this harness (the engine's
// scheduler always checks; natively it is a goroutine count comparison).
func CheckLeaks() { leakCheck = true }

// Symbolic reports whether the harness runs under the symbolic engine.
func Symbolic() bool { return false }

func intVal(name string) (int64, uint64) {
	s, ok := rf.Ints[name]
	if !ok {
		return 0, 0
	}
	if i, err := strconv.ParseInt(s, 10, 64); err == nil {
		return i, uint64(i)
	}
	u, _ := strconv.ParseUint(s, 10, 64)
	return int64(u), u
}

func Int64(name string) int64   { i, _ := intVal(name); return i }
func Int(name string) int       { i, _ := intVal(name); return int(i) }
func Int32(name string) int32   { i, _ := intVal(name); return int32(i) }
func Uint64(name string) uint64 { _, u := intVal(name); return u }
func Uint32(name string) uint32 { _, u := intVal(name); return uint32(u) }
func Byte(name string) byte     { _, u := intVal(name); return byte(u) }
func Bool(name string) bool     { return rf.Bools[name] }

func bytesVal(name string) []byte {
	b, _ := hex.DecodeString(rf.Bytes[name])
	return b
}

// String returns a string of length 0..maxLen with arbitrary bytes.
func String(name string, maxLen int) string { return string(bytesVal(name)) }

// StringN returns a string of exactly n arbitrary bytes.
func StringN(name string, n int) string {
	b := bytesVal(name)
	for len(b) < n {
		b = append(b, 0)
	}
	return string(b[:n])
}

// Bytes returns a byte slice of length 0..maxLen with arbitrary content.
func Bytes(name string, maxLen int) []byte {
	b := bytesVal(name)
	if b == nil {
		b = []byte{}
	}
	return b
}

func BytesN(name string, n int) []byte {
	b := bytesVal(name)
	for len(b) < n {
		b = append(b, 0)
	}
	return b[:n]
}

// Choose returns one of 0..n-1; every alternative is explored.
func Choose(name string, n int) int { return rf.Choices[name] }

type cutPanic struct{ reason string }

// Assume restricts the explored inputs to those satisfying c.
func Assume(c bool) {
	if !c {
		panic(cutPanic{"assumption false"})
	}
}

// Assert is a proof obligation: the engine asks the solver whether c can be false
// on the current path.
func Assert(c bool, label string) {
	if !c {
		mu.Lock()
		failed = append(failed, label)
		mu.Unlock()
		out("VERIF-ASSERT-FAIL %s", label)
	}
}

// AssertExcept is Assert with a recorded known finding: counterexamples inside
// region are attributed to the finding, all others are new violations.
func AssertExcept(c bool, label, finding string, region bool) { Assert(c, label) }

func Fail(label string) { Assert(false, label) }

// Reach marks a reachability witness (vacuity guard).
func Reach(label string) {}

// Cut ends the current path as outside the stated bound.
func Cut(reason string) { panic(cutPanic{reason}) }

// Param returns a bound parameter of the current tier.
func Param(name string, def int) int {
	if v, ok := rf.Params[name]; ok {
		return v
	}
	return def
}

// And, Or, Implies build boolean terms without forking the exploration (Go's &&
// and || are control flow).
func And(a, b bool) bool     { return a && b }
func Or(a, b bool) bool      { return a || b }
func Implies(a, b bool) bool { return !a || b }
func IteInt64(c bool, a, b int64) int64 {
	if c {
		return a
	}
	return b
}

// Yield is an explicit scheduling point.
func Yield() { runtime.Gosched() }

// AtomicBegin/AtomicEnd bracket a model section that runs without scheduling
// points. No-ops natively.
func AtomicBegin() {}
func AtomicEnd()   {}

// GoEnv starts an environment goroutine (an event source such as a canceller or
// a timer). The engine explores every placement of its steps.
func GoEnv(name string, f func()) { Go("env:"+name, f) }

// EnvPoint is the scheduling point of an environment event: the engine explores
// every placement of it; natively it is the replay point with that name.
func EnvPoint(name string) { Point(name) }

// AllocLimit installs the allocation monitor: every make() whose size depends on
// symbolic input must request at most n elements. Natively the bytes allocated
// from this point to the end of the harness are measured instead.
func AllocLimit(n int) {
	var ms runtime.MemStats
	runtime.ReadMemStats(&ms)
	allocLimit, allocBase = uint64(n), ms.TotalAlloc
}

var allocLimit, allocBase uint64

func checkAlloc() {
	if allocLimit == 0 {
		return
	}
	var ms runtime.MemStats
	runtime.ReadMemStats(&ms)
	if ms.TotalAlloc-allocBase > allocLimit+(8<<20) {
		out("VERIF-ASSERT-FAIL alloc-bounded")
	}
}

// KnownPanic attributes a panic with the given label to a recorded finding.
func KnownPanic(label, finding string) {}

// Observe records values for translator validation: the engine predicts the log
// from the solver model and the native run must print the same.
func Observe(label string, vals ...interface{}) {
	line := "VERIF-OBS " + label
	for _, v := range vals {
		switch v := v.(type) {
		case nil:
			line += " <nil>"
		case string:
			line += " " + strconv.Quote(v)
		case []byte:
			line += " " + strconv.Quote(string(v))
		case bool:
			line += " " + strconv.FormatBool(v)
		case int:
			line += " " + strconv.FormatInt(int64(v), 10)
		case int64:
			line += " " + strconv.FormatInt(v, 10)
		case int32:
			line += " " + strconv.FormatInt(int64(v), 10)
		case uint32:
			line += " " + strconv.FormatUint(uint64(v), 10)
		case uint64:
			line += " " + strconv.FormatUint(v, 10)
		case uint8:
			line += " " + strconv.FormatUint(uint64(v), 10)
		default:
			rv := fmt.Sprintf("%d", v)
			line += " " + rv
		}
	}
	out("%s", line)
}

// Preempted returns the number of pre-emptions used so far (0 natively).
func Preempted() int { return 0 }

// SetUntil fixes what time.Until returns for the rest of the path (the clock is
// abstract under the engine). No-op natively.
func SetUntil(d time.Duration) {}

// Quiesce returns once no other goroutine of the program can make progress (every
// one is blocked or finished). Natively it is a short sleep.
func Quiesce() { time.Sleep(40 * time.Millisecond) }

// IteByte is a term-level conditional on bytes (no fork under the engine).
func IteByte(c bool, a, b byte) byte {
	if c {
		return a
	}
	return b
}

// WireHeaderValue is the contract of an HTTP/1.1 header value crossing the wire as
// net/http writes and reads it: CR and LF become spaces, then leading and trailing
// SP / HTAB are trimmed. (RFC 7230 field values; net/http's header writer and
// textproto's reader.)
func WireHeaderValue(v string) string {
	b := []byte(v)
	for i := range b {
		c := b[i]
		b[i] = IteByte(Or(c == '\r', c == '\n'), ' ', c)
	}
	lo, hi := 0, len(b)
	for lo < hi && (b[lo] == ' ' || b[lo] == '\t') {
		lo++
	}
	for hi > lo && (b[hi-1] == ' ' || b[hi-1] == '\t') {
		hi--
	}
	return string(b[lo:hi])
}

// ValidRequestHeaderValue is net/http's client-side check of a request header
// value (golang.org/x/net/http/httpguts.ValidHeaderFieldValue): no control
// characters except HTAB.
func ValidRequestHeaderValue(v string) bool {
	ok := true
	for i := 0; i < len(v); i++ {
		c := v[i]
		ok = And(ok, Or(c == '\t', And(c >= 0x20, c != 0x7f)))
	}
	return ok
}
