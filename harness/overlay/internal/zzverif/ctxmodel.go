//go:build verif

package zzverif

// Model of package context, executed symbolically by the engine in place of the
// standard library (redirected by the //verif:model directives). Natively these
// functions are never called: the real context package runs.
//
// Contract (DESIGN.md §3.2): Done() is closed exactly when the context or an
// ancestor is cancelled; Err() is nil before and Canceled/DeadlineExceeded after;
// cancellation of a model context marks all model descendants atomically (the
// standard library holds the parent's lock while it walks its children); a child
// of a *foreign* parent (a user type embedding a Context, such as grpchan's
// noValuesContext, whose Value() hides the ancestor) is cancelled by a watcher
// goroutine, exactly as the standard library does it; Value walks the chain with
// interface equality; a deadline is an environment goroutine that may fire at
// any scheduling point.

import (
	"context"
	"sync"
	"time"
)

type mctx struct {
	parent     context.Context
	isCancel   bool
	done       chan struct{}
	err        error
	children   []*mctx
	key, val   interface{}
	hasDL      bool
	deadline   time.Time
	hasTimeout bool
	timeout    time.Duration
}

var mCancelKey int
var mTimeoutKey int
var mBackground = &mctx{}
var mTODO = &mctx{}

func (c *mctx) Deadline() (time.Time, bool) {
	if c.hasDL {
		return c.deadline, true
	}
	if c.parent != nil {
		return c.parent.Deadline()
	}
	return time.Time{}, false
}

func (c *mctx) Done() <-chan struct{} {
	if c.isCancel {
		return c.done
	}
	if c.parent != nil {
		return c.parent.Done()
	}
	return nil
}

func (c *mctx) Err() error {
	if c.isCancel {
		Yield() // reads shared cancellation state: a visible operation
		return c.err
	}
	if c.parent != nil {
		return c.parent.Err()
	}
	return nil
}

func (c *mctx) Value(key interface{}) interface{} {
	if k, ok := key.(*int); ok {
		if k == &mCancelKey {
			if c.isCancel {
				return c
			}
		} else if k == &mTimeoutKey {
			if c.hasTimeout {
				return c
			}
		}
	}
	if c.key != nil && c.key == key {
		return c.val
	}
	if c.parent != nil {
		return c.parent.Value(key)
	}
	return nil
}

func (c *mctx) cancelLocked(err error) {
	if c.err != nil {
		return
	}
	c.err = err
	close(c.done)
	for _, ch := range c.children {
		ch.cancelLocked(err)
	}
	c.children = nil
}

func (c *mctx) cancel(err error) {
	Yield() // the instant of cancellation is a scheduling choice
	AtomicBegin()
	c.cancelLocked(err)
	AtomicEnd()
}

func mPropagate(parent context.Context, c *mctx) {
	pd := parent.Done()
	if pd == nil {
		return // parent is never cancelled
	}
	AtomicBegin()
	if p, ok := parent.Value(&mCancelKey).(*mctx); ok && p != nil && (<-chan struct{})(p.done) == pd {
		if p.err != nil {
			c.cancelLocked(p.err)
		} else {
			p.children = append(p.children, c)
		}
		AtomicEnd()
		return
	}
	AtomicEnd()
	// foreign parent
	select {
	case <-pd:
		c.cancel(parent.Err())
		return
	default:
	}
	go func() {
		select {
		case <-pd:
			c.cancel(parent.Err())
		case <-c.done:
		}
	}()
}

//verif:model context.Background
func mBackgroundFn() context.Context { return mBackground }

//verif:model context.TODO
func mTODOFn() context.Context { return mTODO }

//verif:model context.WithCancel
func mWithCancel(parent context.Context) (context.Context, context.CancelFunc) {
	if parent == nil {
		panic("cannot create context from nil parent")
	}
	c := &mctx{parent: parent, isCancel: true, done: make(chan struct{})}
	mPropagate(parent, c)
	return c, func() { c.cancel(context.Canceled) }
}

//verif:model context.WithValue
func mWithValue(parent context.Context, key, val interface{}) context.Context {
	if parent == nil {
		panic("cannot create context from nil parent")
	}
	if key == nil {
		panic("nil key")
	}
	return &mctx{parent: parent, key: key, val: val}
}

func mWithDeadlineCommon(parent context.Context, dl time.Time, d time.Duration, hasTimeout bool) (context.Context, context.CancelFunc) {
	if parent == nil {
		panic("cannot create context from nil parent")
	}
	c := &mctx{parent: parent, isCancel: true, done: make(chan struct{}), hasDL: true, deadline: dl, hasTimeout: hasTimeout, timeout: d}
	mPropagate(parent, c)
	if hasTimeout && d <= 0 {
		c.cancel(context.DeadlineExceeded) // deadline has already passed
		return c, func() { c.cancel(context.Canceled) }
	}
	// the timer: an environment goroutine that may fire at any scheduling point
	GoEnv("deadline-timer", func() { c.cancel(context.DeadlineExceeded) })
	return c, func() { c.cancel(context.Canceled) }
}

//verif:model context.WithTimeout
func mWithTimeout(parent context.Context, d time.Duration) (context.Context, context.CancelFunc) {
	return mWithDeadlineCommon(parent, time.Time{}, d, true)
}

//verif:model context.WithDeadline
func mWithDeadline(parent context.Context, dl time.Time) (context.Context, context.CancelFunc) {
	return mWithDeadlineCommon(parent, dl, 0, false)
}

// TimeoutOf reports the duration the nearest enclosing context.WithTimeout was
// asked for. Under the engine this reads the model's ghost field (exact);
// natively it is the time remaining until the deadline (approximate).
func TimeoutOf(ctx context.Context) (time.Duration, bool) {
	if Symbolic() {
		if c, ok := ctx.Value(&mTimeoutKey).(*mctx); ok && c != nil {
			return c.timeout, true
		}
		return 0, false
	}
	dl, ok := ctx.Deadline()
	if !ok {
		return 0, false
	}
	return time.Until(dl), true
}

// DurationIs compares a duration obtained from TimeoutOf with the expected one:
// exactly under the engine, within two seconds natively (wall-clock skew between
// the context's creation and the measurement).
func DurationIs(got, want time.Duration) bool {
	if Symbolic() {
		return got == want
	}
	const slack = 2 * time.Second
	if want > 1<<62 {
		// the deadline saturates at the largest representable instant
		return got > 1<<61
	}
	return got-want < slack && want-got < slack
}

// Cancelled reports whether ctx is done, without blocking and without a
// scheduling point under the engine.
func Cancelled(ctx context.Context) bool {
	select {
	case <-ctx.Done():
		return true
	default:
		return false
	}
}

// fireCtx is the native stand-in for a context whose deadline fires at a replayed
// instant.
type fireCtx struct {
	mu   sync.Mutex
	done chan struct{}
	err  error
}

func (c *fireCtx) Deadline() (time.Time, bool) { return time.Now().Add(time.Hour), true }
func (c *fireCtx) Done() <-chan struct{}       { return c.done }
func (c *fireCtx) Value(interface{}) interface{} { return nil }
func (c *fireCtx) Err() error {
	c.mu.Lock()
	defer c.mu.Unlock()
	return c.err
}
func (c *fireCtx) fire(err error) {
	c.mu.Lock()
	defer c.mu.Unlock()
	if c.err == nil {
		c.err = err
		close(c.done)
	}
}

// EndableContext returns the caller's context of a cancellation harness together
// with the environment event that ends it: a cancellation (an environment
// goroutine calling cancel) or a deadline (the context model's timer). Under the
// engine the event may happen at any scheduling point; natively it happens at the
// replayed instant.
func EndableContext(deadline bool) (context.Context, context.CancelFunc) {
	if deadline {
		if Symbolic() {
			return context.WithTimeout(context.Background(), time.Hour)
		}
		c := &fireCtx{done: make(chan struct{})}
		OnModelEvent("env:deadline-timer", func() { c.fire(context.DeadlineExceeded) })
		return c, func() { c.fire(context.Canceled) }
	}
	ctx, cancel := context.WithCancel(context.Background())
	GoEnv("canceller", func() {
		EnvPoint("cancel-instant")
		cancel()
	})
	return ctx, cancel
}
