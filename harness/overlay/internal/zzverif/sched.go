//go:build verif

package zzverif

// Native side of schedule-pinned replay. The instrumented scratch copy calls
// Go / Point / Sel at the visible operations; when the replay file carries a
// schedule, goroutines are released in the order of the recorded trace and
// selects take the recorded case. Pinning is "soft": a goroutine whose turn does
// not come within a short time-out proceeds anyway (its predecessor is blocked in
// an operation that needs it), so replay never deadlocks by itself.

import (
	"bytes"
	"os"
	"runtime"
	"strconv"
	"strings"
	"sync"
	"time"
)

type schedStep struct {
	G    int    `json:"g"`
	Op   string `json:"op"`
	Pos  string `json:"pos"`
	UPos string `json:"upos"`
	Case int    `json:"case"`
	Skip bool   `json:"skip"`
}

type gorInfo struct {
	ID   int    `json:"id"`
	Name string `json:"name"`
	Env  bool   `json:"env"`
}

type pin struct {
	mu      sync.Mutex
	cond    *sync.Cond
	steps   []schedStep
	done    []bool
	next    int            // all steps before next are done
	gid     map[int64]int  // runtime goroutine id -> engine goroutine id
	cur     map[int]int    // engine goroutine id -> index of the step in progress (-1 none)
	from    map[int]int    // engine goroutine id -> search position in steps
	bySite  map[string][]int // spawn site -> engine ids in creation order
	taken   map[string]int
	native  map[int]bool // engine goroutine ids that exist natively
	fire    map[string]func()
	active  bool
	timeout time.Duration
}

var pn *pin

func curGoid() int64 {
	var buf [64]byte
	n := runtime.Stack(buf[:], false)
	b := bytes.TrimPrefix(buf[:n], []byte("goroutine "))
	if i := bytes.IndexByte(b, ' '); i > 0 {
		id, _ := strconv.ParseInt(string(b[:i]), 10, 64)
		return id
	}
	return 0
}

func initPin(steps []schedStep, gors []gorInfo) {
	if len(steps) == 0 {
		return
	}
	p := &pin{steps: steps, done: make([]bool, len(steps)), gid: map[int64]int{}, cur: map[int]int{}, from: map[int]int{},
		bySite: map[string][]int{}, taken: map[string]int{}, native: map[int]bool{0: true}, fire: map[string]func(){}, active: true,
		timeout: 300 * time.Millisecond}
	p.cond = sync.NewCond(&p.mu)
	for _, g := range gors {
		site := g.Name
		if strings.HasPrefix(site, "go@") {
			site = strings.TrimPrefix(site, "go@")
		} else {
			site = "env:" + site
		}
		p.bySite[site] = append(p.bySite[site], g.ID)
		p.cur[g.ID] = -1
	}
	pn = p
}

func registerMain() {
	if pn == nil {
		return
	}
	pn.mu.Lock()
	pn.gid[curGoid()] = 0
	pn.mu.Unlock()
}

// Go starts f as the goroutine that the engine created at the same site.
func Go(site string, f func()) {
	p := pn
	if p == nil || !p.active {
		go f()
		return
	}
	p.mu.Lock()
	id := -1
	if ids := p.bySite[site]; p.taken[site] < len(ids) {
		id = ids[p.taken[site]]
		p.taken[site]++
		p.native[id] = true
	}
	p.mu.Unlock()
	go func() {
		if id >= 0 {
			p.mu.Lock()
			p.gid[curGoid()] = id
			p.mu.Unlock()
			defer p.finish(id)
		}
		f()
	}()
}

// finish marks the goroutine's step in progress as done.
func (p *pin) finish(id int) {
	p.mu.Lock()
	p.completeLocked(id)
	p.mu.Unlock()
}

func (p *pin) completeLocked(id int) {
	if i := p.cur[id]; i >= 0 {
		p.done[i] = true
		p.cur[id] = -1
	}
	p.advanceLocked()
}

// advanceLocked moves next over done steps and over steps that have no native
// counterpart (model-internal operations, goroutines that only exist in the
// model), firing registered environment events on the way.
func (p *pin) advanceLocked() {
	for p.next < len(p.steps) {
		st := p.steps[p.next]
		if p.done[p.next] {
			p.next++
			continue
		}
		if st.Skip {
			// no replay point for this operation: it is not ordered natively
			p.done[p.next] = true
			p.next++
			continue
		}
		if !p.native[st.G] && !p.mayAppear(st.G) {
			// a model-only goroutine (context watcher, deadline timer)
			if f := p.fire[p.nameOf(st.G)]; f != nil {
				p.mu.Unlock()
				f()
				time.Sleep(2 * time.Millisecond)
				p.mu.Lock()
				delete(p.fire, p.nameOf(st.G))
			}
			p.done[p.next] = true
			p.next++
			continue
		}
		break
	}
	p.cond.Broadcast()
}

func (p *pin) nameOf(id int) string {
	for site, ids := range p.bySite {
		for _, x := range ids {
			if x == id {
				return site
			}
		}
	}
	return ""
}

// mayAppear reports whether engine goroutine id corresponds to an instrumented
// spawn site that has not been reached yet.
func (p *pin) mayAppear(id int) bool {
	site := p.nameOf(id)
	if strings.HasPrefix(site, "internal/zzverif/") || strings.HasPrefix(site, "env:deadline-timer") {
		return false
	}
	return true
}

// enter blocks until it is the calling goroutine's turn for its next step at
// site, and returns that step's select case.
func (p *pin) enter(site string) int {
	id, ok := p.gid[curGoid()]
	if !ok {
		return -2
	}
	p.completeLocked(id)
	// find this goroutine's next step at this site
	idx := -1
	for i := p.from[id]; i < len(p.steps); i++ {
		st := p.steps[i]
		if st.G != id || p.done[i] || st.Skip {
			continue
		}
		if st.UPos == site || st.Pos == site {
			idx = i
			break
		}
	}
	if idx < 0 {
		if pinDebug {
			out("VERIF-PIN g%d at %s: no step left", id, site)
		}
		return -2 // beyond the recorded trace: run freely
	}
	// steps of this goroutine that were skipped have no native counterpart
	for i := p.from[id]; i < idx; i++ {
		if p.steps[i].G == id {
			p.done[i] = true
		}
	}
	p.from[id] = idx + 1
	p.advanceLocked()
	if strings.Contains(p.steps[idx].Op, "completed-by-peer") {
		// the operation is completed by a partner's step: go and block in it
		p.cur[id] = idx
		return p.steps[idx].Case
	}
	// Wait for our turn. The step that holds us up (p.next) belongs to some
	// goroutine H. If H has been granted that step and is now blocked inside the
	// operation (its partner comes later in the trace), the step counts as parked
	// and we move on; if H has not reached its replay point yet we wait for it.
	// A generous overall time-out keeps replay from hanging when the native run
	// diverges from the trace.
	deadline := time.Now().Add(p.timeout)
	for p.next < idx {
		if time.Now().After(deadline) {
			break // soft pinning: proceed
		}
		j := p.next
		h := p.steps[j].G
		if p.native[h] && p.cur[h] == j && p.blocked(h) {
			p.done[j] = true // parked inside its operation
			p.advanceLocked()
			continue
		}
		waitCond(p.cond, time.Millisecond)
		p.advanceLocked()
	}
	p.cur[id] = idx
	if pinDebug {
		out("VERIF-PIN g%d step %d %s %s case=%d waited-ok=%v next=%d", id, idx, p.steps[idx].Op, site, p.steps[idx].Case, p.next >= idx, p.next)
	}
	return p.steps[idx].Case
}

var pinDebug = os.Getenv("VERIF_PIN_DEBUG") != ""

// blocked reports whether the native goroutine of engine goroutine id is waiting
// (channel operation, select, lock, ...), judged from its state in a stack dump.
func (p *pin) blocked(id int) bool {
	var goid int64 = -1
	for g, e := range p.gid {
		if e == id {
			goid = g
		}
	}
	if goid < 0 {
		return false
	}
	buf := make([]byte, 1<<18)
	n := runtime.Stack(buf, true)
	needle := []byte("goroutine " + strconv.FormatInt(goid, 10) + " [")
	i := bytes.Index(buf[:n], needle)
	if i < 0 {
		return false
	}
	rest := buf[i+len(needle) : n]
	j := bytes.IndexByte(rest, ']')
	if j < 0 {
		return false
	}
	state := string(rest[:j])
	if k := strings.IndexByte(state, ','); k >= 0 {
		state = state[:k]
	}
	switch state {
	case "running", "runnable", "syscall":
		return false
	}
	return true
}

func waitCond(c *sync.Cond, d time.Duration) {
	t := time.AfterFunc(d, c.Broadcast)
	c.Wait()
	t.Stop()
}

// Point is a replay point before a visible operation.
func Point(site string) {
	p := pn
	if p == nil || !p.active {
		return
	}
	p.mu.Lock()
	p.enter(site)
	p.mu.Unlock()
}

// Sel is the replay point of a select statement: it returns the index of the
// case to take (among the non-default communication clauses), or a negative value
// to run the original select.
func Sel(site string) int {
	p := pn
	if p == nil || !p.active {
		return -2
	}
	p.mu.Lock()
	c := p.enter(site)
	p.mu.Unlock()
	return c
}

// OnModelEvent registers what to do natively when the replayed trace reaches a
// step of a model-only goroutine with the given name (e.g. the deadline timer).
func OnModelEvent(name string, f func()) {
	if pn == nil {
		return
	}
	pn.mu.Lock()
	pn.fire[name] = f
	pn.mu.Unlock()
}
