//go:build verif

package zzcross

import (
	"context"
	"fmt"
	"io"
	"unicode/utf8"

	"google.golang.org/grpc"
	"google.golang.org/grpc/codes"
	"google.golang.org/grpc/metadata"
	"google.golang.org/grpc/status"

	"github.com/fullstorydev/grpchan/httpgrpc"
	"github.com/fullstorydev/grpchan/inprocgrpc"
	"github.com/fullstorydev/grpchan/internal/zzfix"
	zv "github.com/fullstorydev/grpchan/internal/zzverif"
)

// verifPrintable returns a symbolic string of printable ASCII (0x20..0x7e).
func verifPrintable(name string, maxLen int) string {
	s := zv.String(name, maxLen)
	for i := 0; i < len(s); i++ {
		zv.Assume(zv.And(s[i] >= 0x20, s[i] <= 0x7e))
	}
	return s
}

func verifOuterSpace(s string) bool {
	if len(s) == 0 {
		return false
	}
	return zv.Or(s[0] == ' ', s[len(s)-1] == ' ')
}

func verifSameValues(got []string, want ...string) bool {
	if len(got) != len(want) {
		return false
	}
	eq := true
	for i := range want {
		eq = zv.And(eq, got[i] == want[i])
	}
	return eq
}

// Verif_C03_Metadata: request metadata, response headers and trailers, on both
// transports, unary and streaming, success and failure, with duplicated
// grpc.Header / grpc.Trailer call options and both client orders of Header() and
// RecvMsg.
func Verif_C03_Metadata() {
	overHTTP := zv.Bool("over-http")
	streaming := zv.Bool("streaming")
	fails := zv.Bool("handler-fails")
	// Values and scripts are independent dimensions: either the values are symbolic
	// with the plain script, or the script (orders, options, ways of attaching) is
	// symbolic with fixed values; the sum, not the product, of the two spaces.
	symbolicValues := zv.Choose("focus-on-values", 2) == 1
	sendHeaderExplicitly, headerBeforeRecv, appendMD := false, false, false
	setsHeaders, sendsMessage := true, true
	singleResponse := false
	nHdrOpts, nTlrOpts := 1, 1
	reqVal, hdrVal, tlrVal := "rv", "hv", "tv"
	reqBin, tlrBin := []byte{0x00, 0xff}, []byte{0x01}
	if symbolicValues {
		reqVal = verifPrintable("request-value", zv.Param("valcap", 2))
		reqBin = zv.Bytes("request-bin-value", zv.Param("bincap", 2))
		hdrVal = verifPrintable("header-value", zv.Param("valcap", 2))
		tlrVal = verifPrintable("trailer-value", zv.Param("valcap", 2))
		tlrBin = zv.Bytes("trailer-bin-value", zv.Param("bincap", 2))
	} else {
		sendHeaderExplicitly = zv.Bool("handler-calls-SendHeader")
		headerBeforeRecv = zv.Bool("client-calls-Header-before-RecvMsg")
		appendMD = zv.Bool("caller-uses-AppendToOutgoingContext")
		setsHeaders = zv.Bool("handler-sets-headers")
		sendsMessage = zv.Bool("streaming-handler-sends-a-message")
		if streaming {
			// a client-streaming method: exactly one response, and the caller (like
			// the generated CloseAndRecv) receives exactly once
			singleResponse = zv.Bool("single-response-method")
		}
		nHdrOpts = zv.Choose("header-call-options", zv.Param("optdup", 1)+1)
		nTlrOpts = zv.Choose("trailer-call-options", zv.Param("optdup", 1)+1)
	}

	textOnHeaderWire := overHTTP // request metadata and response headers travel as HTTP headers
	trailerTextOnHeaderWire := overHTTP && !streaming

	hooks := &zzfix.Hooks{}
	checkIncoming := func(ctx context.Context) {
		in, _ := metadata.FromIncomingContext(ctx)
		ok := verifSameValues(in["k"], reqVal, "second")
		if textOnHeaderWire {
			zv.AssertExcept(ok, "handler-sees-every-request-value-in-order", "KF-C03-http-text-value-outer-space-trimmed", verifOuterSpace(reqVal))
		} else {
			zv.Assert(ok, "handler-sees-every-request-value-in-order")
		}
		zv.Assert(len(in["x-bin"]) == 1 && in["x-bin"][0] == string(reqBin), "handler-sees-binary-request-value-byte-exact")
	}
	setAfterSent := func(set func(metadata.MD) error) {
		zv.Assert(set(metadata.Pairs("late", "x")) != nil, "setting-headers-after-they-were-sent-fails")
	}
	hooks.Unary = func(tag string, ctx context.Context, req *zzfix.Msg) (*zzfix.Msg, error) {
		checkIncoming(ctx)
		if setsHeaders {
			zv.Assert(grpc.SetHeader(ctx, metadata.Pairs("h", hdrVal)) == nil, "set-header-accepted")
			zv.Assert(grpc.SetHeader(ctx, metadata.Pairs("h", "h2")) == nil, "set-header-accepted")
		}
		if sendHeaderExplicitly {
			zv.Assert(grpc.SendHeader(ctx, nil) == nil, "send-header-accepted")
			setAfterSent(func(md metadata.MD) error { return grpc.SetHeader(ctx, md) })
		}
		grpc.SetTrailer(ctx, metadata.Pairs("t", tlrVal, "t-bin", string(tlrBin)))
		grpc.SetTrailer(ctx, metadata.Pairs("t", "t2"))
		if fails {
			return nil, status.Error(codes.Aborted, "handler failed")
		}
		return &zzfix.Msg{Count: 7}, nil
	}
	hooks.Stream = func(tag string, ss grpc.ServerStream) error {
		checkIncoming(ss.Context())
		for {
			if err := ss.RecvMsg(&zzfix.Msg{}); err != nil {
				break
			}
		}
		if setsHeaders {
			zv.Assert(ss.SetHeader(metadata.Pairs("h", hdrVal)) == nil, "set-header-accepted")
			zv.Assert(ss.SetHeader(metadata.Pairs("h", "h2")) == nil, "set-header-accepted")
		}
		if sendHeaderExplicitly {
			zv.Assert(ss.SendHeader(nil) == nil, "send-header-accepted")
			setAfterSent(ss.SetHeader)
		}
		if sendsMessage || (singleResponse && !fails) {
			ss.SendMsg(&zzfix.Msg{Count: 7})
			setAfterSent(ss.SetHeader)
		}
		ss.SetTrailer(metadata.Pairs("t", tlrVal, "t-bin", string(tlrBin)))
		ss.SetTrailer(metadata.Pairs("t", "t2"))
		if fails {
			return status.Error(codes.Aborted, "handler failed")
		}
		return nil
	}
	var ch grpc.ClientConnInterface
	if overHTTP {
		ch = httpgrpc.VerifHTTPChannel(hooks)
	} else {
		c := &inprocgrpc.Channel{}
		c.RegisterService(zzfix.Desc("a"), &zzfix.Srv{Name: "a", Hooks: hooks})
		ch = c
	}
	ctx, cancel := context.WithCancel(context.Background())
	defer cancel()
	if appendMD {
		// part of the metadata is attached the incremental way
		ctx = metadata.NewOutgoingContext(ctx, metadata.Pairs("k", reqVal))
		ctx = metadata.AppendToOutgoingContext(ctx, "k", "second", "x-bin", string(reqBin))
	} else {
		ctx = metadata.NewOutgoingContext(ctx, metadata.Pairs("k", reqVal, "k", "second", "x-bin", string(reqBin)))
	}
	hdrs := make([]metadata.MD, nHdrOpts)
	tlrs := make([]metadata.MD, nTlrOpts)
	var opts []grpc.CallOption
	for i := range hdrs {
		opts = append(opts, grpc.Header(&hdrs[i]))
	}
	for i := range tlrs {
		opts = append(opts, grpc.Trailer(&tlrs[i]))
	}

	var final error
	var streamHdr, streamTlr metadata.MD
	gotMsg := false
	if !streaming {
		resp := &zzfix.Msg{}
		final = ch.Invoke(ctx, "/a/U", &zzfix.Msg{}, resp, opts...)
		gotMsg = final == nil
	} else {
		mtd := "S"
		if singleResponse {
			mtd = "C"
		}
		cs, err := ch.NewStream(ctx, zzfix.StreamDescOf(mtd), "/a/"+mtd, opts...)
		if err != nil {
			zv.Fail("stream-created")
			return
		}
		cs.SendMsg(&zzfix.Msg{})
		cs.CloseSend()
		if headerBeforeRecv {
			streamHdr, _ = cs.Header()
		}
		receives := 3
		if singleResponse {
			receives = 1
		}
		for i := 0; i < receives; i++ {
			e := cs.RecvMsg(&zzfix.Msg{})
			if e != nil {
				final = e
				break
			}
			gotMsg = true
			if !headerBeforeRecv && streamHdr == nil {
				// headers are observable no later than the first message
				streamHdr, _ = cs.Header()
			}
		}
		if final == io.EOF {
			final = nil
		}
		if streamHdr == nil {
			streamHdr, _ = cs.Header() // no message arrived: the headers come with the end
		}
		streamTlr = cs.Trailer()
	}
	zv.Observe("call", overHTTP, streaming, fails, final == nil)

	// the handler's outcome must be the client's outcome; a trailer that cannot be
	// carried must not turn success into failure
	binTrailerLost := overHTTP && streaming && !utf8.Valid(tlrBin)
	if !fails {
		zv.AssertExcept(final == nil, "successful-call-reported-as-success", "KF-C03-http-stream-nonutf8-trailer-lost", binTrailerLost)
	} else {
		zv.AssertExcept(status.Code(final) == codes.Aborted, "failed-call-reports-handlers-status", "KF-C03-http-stream-nonutf8-trailer-lost", binTrailerLost)
	}
	if binTrailerLost {
		return
	}
	checkHeader := func(md metadata.MD, what string) {
		if !setsHeaders {
			zv.Assert(len(md["h"]) == 0, what)
			return
		}
		ok := verifSameValues(md["h"], hdrVal, "h2")
		if textOnHeaderWire {
			zv.AssertExcept(ok, what, "KF-C03-http-text-value-outer-space-trimmed", verifOuterSpace(hdrVal))
		} else {
			zv.Assert(ok, what)
		}
	}
	checkTrailer := func(md metadata.MD, what string) {
		ok := verifSameValues(md["t"], tlrVal, "t2")
		if trailerTextOnHeaderWire {
			zv.AssertExcept(ok, what, "KF-C03-http-text-value-outer-space-trimmed", verifOuterSpace(tlrVal))
		} else {
			zv.Assert(ok, what)
		}
		zv.Assert(len(md["t-bin"]) == 1 && md["t-bin"][0] == string(tlrBin), what+"-binary-byte-exact")
	}
	// headers: observable once the first message is (streams), or with the result
	_ = gotMsg
	{
		zv.Reach("headers-checked")
		for i := range hdrs {
			checkHeader(hdrs[i], fmt.Sprintf("header-option-%d-filled", i))
		}
		if streaming {
			checkHeader(streamHdr, "Header()-returns-the-headers")
		}
	}
	// trailers: observable with the final status, on success and on failure
	zv.Reach("trailers-checked")
	for i := range tlrs {
		checkTrailer(tlrs[i], fmt.Sprintf("trailer-option-%d-filled", i))
	}
	if streaming {
		checkTrailer(streamTlr, "Trailer()-returns-the-trailers")
	}
	zv.CheckLeaks()
}
