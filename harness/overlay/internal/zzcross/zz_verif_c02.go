//go:build verif

package zzcross

import (
	"context"
	"errors"
	"io"
	"unicode/utf8"

	spb "google.golang.org/genproto/googleapis/rpc/status"
	"google.golang.org/grpc"
	"google.golang.org/grpc/codes"
	"google.golang.org/grpc/status"
	"google.golang.org/protobuf/types/known/anypb"

	"github.com/fullstorydev/grpchan/httpgrpc"
	"github.com/fullstorydev/grpchan/inprocgrpc"
	"github.com/fullstorydev/grpchan/internal/zzfix"
	zv "github.com/fullstorydev/grpchan/internal/zzverif"
)

// verifOutcome is the handler's final result of a C02 run, with the status the
// client must see for it (what the standard gRPC server derives).
type verifOutcome struct {
	err       error
	wantCode  codes.Code
	wantMsg   string
	nDetails  int
	isSuccess bool
	msgSym    bool // the message is the symbolic one (subject to the wire findings)
}

func verifHandlerOutcome(symbolicStatus bool) verifOutcome {
	if !symbolicStatus {
		switch zv.Choose("handler-outcome", 6) {
		case 0:
			return verifOutcome{isSuccess: true}
		case 1:
			sp := &spb.Status{Code: int32(codes.NotFound), Message: "not here", Details: []*anypb.Any{{TypeUrl: "t", Value: []byte{1}}}}
			return verifOutcome{err: status.FromProto(sp).Err(), wantCode: codes.NotFound, wantMsg: "not here", nDetails: 1}
		case 2:
			return verifOutcome{err: errors.New("boom"), wantCode: codes.Unknown, wantMsg: "boom"}
		case 3:
			return verifOutcome{err: context.Canceled, wantCode: codes.Canceled, wantMsg: context.Canceled.Error()}
		case 4:
			return verifOutcome{err: context.DeadlineExceeded, wantCode: codes.DeadlineExceeded, wantMsg: context.DeadlineExceeded.Error()}
		default:
			return verifOutcome{err: io.EOF, wantCode: codes.Unknown, wantMsg: "EOF"}
		}
	}
	switch 1 {
	case 1:
		// an arbitrary status: every 32-bit code, every message up to the cap, 0..1 details
		code := codes.Code(zv.Uint32("status-code"))
		msg := zv.String("status-message", zv.Param("msgcap", 2))
		nd := zv.Choose("details", 2)
		if code == codes.OK {
			// status.Error(OK, ...) is nil: the handler succeeds
			return verifOutcome{isSuccess: true}
		}
		sp := &spb.Status{Code: int32(code), Message: msg}
		if nd == 1 {
			sp.Details = []*anypb.Any{{TypeUrl: "t", Value: []byte{1}}}
		}
		return verifOutcome{err: status.FromProto(sp).Err(), wantCode: code, wantMsg: msg, nDetails: nd, msgSym: true}
	}
	return verifOutcome{isSuccess: true}
}

func verifAlteredByHeaderWire(s string) bool {
	// region of the recorded finding: the value does not survive an HTTP header
	// (CR/LF anywhere, or SP/HTAB at either end)
	bad := false
	for i := 0; i < len(s); i++ {
		bad = zv.Or(bad, zv.Or(s[i] == '\r', s[i] == '\n'))
	}
	if len(s) > 0 {
		bad = zv.Or(bad, zv.Or(zv.Or(s[0] == ' ', s[0] == '\t'), zv.Or(s[len(s)-1] == ' ', s[len(s)-1] == '\t')))
	}
	return bad
}

// Verif_C02_Status: for both transports and every RPC kind, the client's final
// outcome equals the handler's final status (code, message, details count); the
// client reports success only if the handler returned nil.
func Verif_C02_Status() {
	overHTTP := zv.Bool("over-http")
	kind := []string{"U", "R", "C", "S"}[zv.Choose("kind", 4)]
	// Either the status is symbolic (every code, every message) under the plain
	// script, or the script varies with a fixed set of outcomes: the sum, not the
	// product, of the two spaces.
	symbolicStatus := zv.Choose("focus-on-status-values", 2) == 1
	nBefore, headerFirst := 0, false
	if !symbolicStatus {
		nBefore = zv.Choose("responses-before-the-end", 2)
		headerFirst = zv.Bool("client-asks-for-headers-first")
	}
	out := verifHandlerOutcome(symbolicStatus)
	hooks := &zzfix.Hooks{}
	hooks.Unary = func(tag string, ctx context.Context, req *zzfix.Msg) (*zzfix.Msg, error) {
		if out.err != nil {
			return nil, out.err
		}
		return &zzfix.Msg{Count: 7}, nil
	}
	hooks.Stream = func(tag string, ss grpc.ServerStream) error {
		for {
			if err := ss.RecvMsg(&zzfix.Msg{}); err != nil {
				break
			}
			if kind == "R" {
				break
			}
		}
		n := nBefore
		if kind == "C" && out.err == nil {
			n = 1
		}
		if kind == "C" && out.err != nil && n > 1 {
			n = 1
		}
		for i := 0; i < n; i++ {
			ss.SendMsg(&zzfix.Msg{Count: int32(i + 1)})
		}
		return out.err
	}
	var ch grpc.ClientConnInterface
	if overHTTP {
		ch = httpgrpc.VerifHTTPChannel(hooks)
	} else {
		c := &inprocgrpc.Channel{}
		c.RegisterService(zzfix.Desc("a"), &zzfix.Srv{Name: "a", Hooks: hooks})
		ch = c
	}
	ctx, cancel := context.WithCancel(context.Background())
	defer cancel()
	var final error
	if kind == "U" {
		final = ch.Invoke(ctx, "/a/U", &zzfix.Msg{}, &zzfix.Msg{})
	} else {
		cs, err := ch.NewStream(ctx, zzfix.StreamDescOf(kind), "/a/"+kind)
		if err != nil {
			zv.Fail("stream-created")
			return
		}
		cs.SendMsg(&zzfix.Msg{})
		cs.CloseSend()
		if headerFirst {
			cs.Header()
		}
		if kind == "C" {
			// a single-response method: generated stubs call RecvMsg exactly once
			// (CloseAndRecv) and report its result
			final = cs.RecvMsg(&zzfix.Msg{})
		} else {
			for i := 0; i < 4; i++ {
				e := cs.RecvMsg(&zzfix.Msg{})
				if e != nil {
					final = e
					break
				}
			}
		}
		if final == io.EOF {
			final = nil
		}
	}
	zv.Observe("outcome", overHTTP, kind, out.isSuccess, final == nil)
	if final == nil {
		zv.Reach("client-success")
		if out.msgSym && overHTTP && kind != "U" {
			zv.AssertExcept(out.isSuccess, "success-only-if-handler-succeeded", "KF-C02-http-stream-nonutf8-status-lost", !utf8.ValidString(out.wantMsg))
		} else {
			zv.Assert(out.isSuccess, "success-only-if-handler-succeeded")
		}
		return
	}
	zv.Reach("client-error")
	zv.Assert(!out.isSuccess, "handler-success-is-reported-as-success")
	if out.isSuccess {
		return
	}
	st := status.Convert(final)
	switch {
	case out.msgSym && overHTTP && kind == "U":
		zv.Assert(st.Code() == out.wantCode, "client-sees-handlers-code")
		if utf8.ValidString(out.wantMsg) {
			zv.AssertExcept(st.Message() == out.wantMsg, "client-sees-handlers-message", "KF-C02-http-unary-message-altered-by-header", verifAlteredByHeaderWire(out.wantMsg))
		}
		zv.Assert(len(st.Proto().Details) == out.nDetails, "client-sees-handlers-details")
	case out.msgSym && overHTTP:
		zv.AssertExcept(st.Code() == out.wantCode, "client-sees-handlers-code", "KF-C02-http-stream-nonutf8-status-lost", !utf8.ValidString(out.wantMsg))
		if utf8.ValidString(out.wantMsg) {
			zv.Assert(st.Message() == out.wantMsg, "client-sees-handlers-message")
			zv.Assert(len(st.Proto().Details) == out.nDetails, "client-sees-handlers-details")
		}
	default:
		zv.Assert(st.Code() == out.wantCode, "client-sees-handlers-code")
		if utf8.ValidString(out.wantMsg) {
			zv.Assert(st.Message() == out.wantMsg, "client-sees-handlers-message")
		}
		zv.Assert(len(st.Proto().Details) == out.nDetails, "client-sees-handlers-details")
	}
	zv.CheckLeaks()
}
