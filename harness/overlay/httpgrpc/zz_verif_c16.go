//go:build verif

package httpgrpc

import (
	"context"
	"io"

	"google.golang.org/grpc"
	"google.golang.org/grpc/codes"
	"google.golang.org/grpc/status"

	"github.com/fullstorydev/grpchan"
	"github.com/fullstorydev/grpchan/internal/zzfix"
	zv "github.com/fullstorydev/grpchan/internal/zzverif"
)

// Verif_C16_HTTP: the HTTP server hands every RPC to its transport-level
// interceptor first, then to the decorating one, then to the handler.
func Verif_C16_HTTP() {
	hooks := &verifHooks{}
	hasT := zv.Bool("transport-interceptor")
	hasD := zv.Bool("decorating-interceptor")
	tForward := zv.Bool("transport-forwards")
	dForward := zv.Bool("decoration-forwards")
	mtd := []string{"U", "S", "C", "R"}[zv.Choose("method", 4)]
	full := "/a/" + mtd
	sd := zzfix.StreamDescOf(mtd)
	shortErr := status.Error(codes.PermissionDenied, "no")
	checkU := func(info *grpc.UnaryServerInfo) {
		zv.Assert(info.FullMethod == full, "unary-interceptor-told-full-method")
	}
	checkS := func(info *grpc.StreamServerInfo) {
		zv.Assert(info.FullMethod == full, "stream-interceptor-told-full-method")
		zv.Assert(info.IsClientStream == sd.ClientStreams && info.IsServerStream == sd.ServerStreams, "stream-interceptor-told-streaming-flags")
	}
	var opts []ServerOption
	if hasT {
		opts = append(opts, WithServerUnaryInterceptor(hooks.UnaryInt("transport", tForward, shortErr, checkU)),
			WithServerStreamInterceptor(hooks.StreamInt("transport", tForward, shortErr, checkS)))
	}
	srv := NewServer(opts...)
	desc := zzfix.Desc("a")
	if hasD {
		desc = grpchan.InterceptServer(desc, hooks.UnaryInt("decor", dForward, shortErr, checkU), hooks.StreamInt("decor", dForward, shortErr, checkS))
	}
	srv.RegisterService(desc, &zzfix.Srv{Name: "a", Hooks: hooks})
	ut := &verifTransport{handler: srv, inline: true}
	st := &verifStreamTransport{handler: srv}
	ch := &Channel{Transport: &verifRouter{unary: ut, stream: st}, BaseURL: verifURL("http", "h", "/")}

	ctx, cancel := context.WithCancel(context.Background())
	defer cancel()
	var err error
	if mtd == "U" {
		err = ch.Invoke(ctx, full, &verifMsg{}, &verifMsg{})
	} else {
		var cs grpc.ClientStream
		cs, err = ch.NewStream(ctx, sd, full)
		if err == nil {
			cs.CloseSend()
			err = cs.RecvMsg(&verifMsg{})
			if err == io.EOF {
				err = nil
			}
		}
	}
	var want []string
	reaches := true
	if hasT {
		want = append(want, "transport")
		reaches = reaches && tForward
	}
	if hasD && reaches {
		want = append(want, "decor")
		reaches = reaches && dForward
	}
	if reaches {
		want = append(want, "handler:a/"+mtd)
	}
	zv.Reach("dispatched")
	zv.Observe("events", len(hooks.Events), len(want))
	zv.Assert(len(hooks.Events) == len(want), "each-interceptor-and-handler-exactly-once")
	if len(hooks.Events) == len(want) {
		for i := range want {
			zv.Assert(hooks.Events[i] == want[i], "transport-first-then-decoration-then-handler")
		}
	}
	if reaches {
		zv.Assert(err == nil, "forwarded-call-succeeds")
	} else {
		zv.Assert(status.Code(err) == codes.PermissionDenied, "short-circuit-error-reaches-client")
	}
}
