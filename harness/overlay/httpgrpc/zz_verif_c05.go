//go:build verif

package httpgrpc

import (
	"context"
	"fmt"
	"io"
	"sync/atomic"

	"google.golang.org/grpc"
	"google.golang.org/grpc/codes"
	"google.golang.org/grpc/metadata"
	"google.golang.org/grpc/status"

	"github.com/fullstorydev/grpchan/internal/zzfix"
	zv "github.com/fullstorydev/grpchan/internal/zzverif"
)

// client operations
const (
	verifCSend = iota
	verifCCloseSend
	verifCHeader
	verifCRecv
	verifCCancel
	verifCNumOps
)

// handler operations
const (
	verifHRecv = iota
	verifHSend
	verifHSetHeader
	verifHSendHeader
	verifHSetTrailer
	verifHNumOps
)

// verifClientOp performs one client operation and checks its result is of an
// allowed kind (a panic or a hang is caught by the engine itself).
func verifClientOp(op int, cs grpc.ClientStream, cancel context.CancelFunc, ctx context.Context, closed *bool, handlerDone *int32) {
	switch op {
	case verifCSend:
		err := cs.SendMsg(&verifMsg{Count: 1})
		if err != nil && err != io.EOF {
			_, isStatus := status.FromError(err)
			ok := isStatus || *closed || (zv.Cancelled(ctx) && (err == context.Canceled || err == context.DeadlineExceeded))
			zv.Assert(ok, "send-result-is-nil-EOF-or-an-expected-error")
		}
		if atomic.LoadInt32(handlerDone) == 2 && !*closed && !zv.Cancelled(ctx) {
			// the handler had completely finished before this send started
			zv.Assert(err == nil || err == io.EOF, "send-after-handler-finished-returns-nil-or-EOF")
		}
	case verifCCloseSend:
		zv.Assert(cs.CloseSend() == nil, "close-send-succeeds")
		*closed = true
	case verifCHeader:
		_, err := cs.Header()
		if err != nil {
			_, isStatus := status.FromError(err)
			zv.Assert(isStatus || err == context.Canceled || err == context.DeadlineExceeded, "header-error-is-status-or-context-error")
		}
	case verifCRecv:
		err := cs.RecvMsg(&verifMsg{})
		if err != nil && err != io.EOF {
			_, isStatus := status.FromError(err)
			zv.Assert(isStatus, "receive-error-is-a-status")
		}
	case verifCCancel:
		cancel()
	}
}

// Verif_C05_HTTP: the same over the HTTP transport (half-duplex): every client script and handler script of bounded length over
// a bidi in-process stream, optionally with the client's sends in their own
// goroutine. At the end the handler returns and the client cancels, after which
// every further operation must complete; nothing may deadlock, panic or leak.
func Verif_C05_HTTP() {
	nOps := zv.Param("scriptlen", 2)
	var cops, hops []int
	for i := 0; i < nOps; i++ {
		cops = append(cops, zv.Choose(fmt.Sprintf("client-op#%d", i), verifCNumOps))
		hops = append(hops, zv.Choose(fmt.Sprintf("handler-op#%d", i), verifHNumOps))
	}
	handlerFails := zv.Bool("handler-fails")
	concurrentSender := zv.Bool("sender-in-own-goroutine")
	hooks := &verifHooks{}
	var handlerDone int32
	hooks.Stream = func(tag string, ss grpc.ServerStream) error {
		drained := false
		for _, op := range hops {
			if (op == verifHSend || op == verifHSendHeader) && !drained {
				// half-duplex over HTTP/1.1: a handler answers only after it has
				// consumed the client's messages
				for ss.RecvMsg(&verifMsg{}) == nil {
				}
				drained = true
			}
			switch op {
			case verifHRecv:
				ss.RecvMsg(&verifMsg{})
			case verifHSend:
				ss.SendMsg(&verifMsg{Count: 2})
			case verifHSetHeader:
				ss.SetHeader(metadata.Pairs("h", "1"))
			case verifHSendHeader:
				ss.SendHeader(metadata.Pairs("h", "2"))
			case verifHSetTrailer:
				ss.SetTrailer(metadata.Pairs("t", "1"))
			}
		}
		atomic.StoreInt32(&handlerDone, 1)
		if handlerFails {
			return status.Error(codes.Aborted, "handler failed")
		}
		return nil
	}
	ch, _, st := verifHTTP(hooks)
	// the server lets the response go out while the request body is open and
	// buffers it until Flush (HTTP/2 or full-duplex HTTP/1.1), or every write
	// reaches the client at once
	st.buffered = zv.Bool("response-buffered-until-flush")
	ctx, cancel := context.WithCancel(context.Background())
	defer cancel()
	cs, err := ch.NewStream(ctx, zzfix.StreamDescOf("S"), "/a/S")
	if err != nil {
		zv.Fail("stream-created")
		return
	}
	// Scripts in which client and handler wait for each other are the application's
	// deadlock, not the library's: when nothing can move any more, the context ends
	// (as a caller's deadline would), and from then on everything must complete.
	var clientFinished int32
	zv.GoEnv("watchdog", func() {
		zv.Quiesce()
		if atomic.LoadInt32(&handlerDone) != 0 && atomic.LoadInt32(&clientFinished) == 0 {
			// nothing can move, the handler has returned, and a client operation is
			// still blocked: that is the library's fault
			zv.Fail("client-operation-blocked-after-the-handler-returned")
		}
		cancel()
	})
	closed := false
	senderDone := make(chan struct{})
	if concurrentSender {
		go func() {
			defer close(senderDone)
			c2 := false
			for _, op := range cops {
				if op == verifCSend || op == verifCCloseSend {
					verifClientOp(op, cs, cancel, ctx, &c2, &handlerDone)
				}
			}
		}()
		for _, op := range cops {
			if op != verifCSend && op != verifCCloseSend {
				verifClientOp(op, cs, cancel, ctx, &closed, &handlerDone)
			}
		}
	} else {
		close(senderDone)
		for _, op := range cops {
			verifClientOp(op, cs, cancel, ctx, &closed, &handlerDone)
		}
	}
	// wind down: the context ends; every further operation must complete
	cancel()
	<-senderDone
	zv.Reach("scripts-done")
	// receives drain what was already delivered and then yield the final status
	drained := false
	for i := 0; i < nOps+3; i++ {
		if cs.RecvMsg(&verifMsg{}) != nil {
			drained = true
			break
		}
	}
	zv.Assert(drained, "receives-drain-and-then-report-the-end")
	cs.SendMsg(&verifMsg{})
	cs.CloseSend()
	cs.Header()
	cs.Trailer()
	e2 := cs.RecvMsg(&verifMsg{})
	zv.Assert(e2 != nil, "receive-after-end-fails")
	atomic.StoreInt32(&clientFinished, 1)
	zv.Reach("all-operations-completed")
	zv.CheckLeaks()
}

// Verif_C05_HTTPFlood: the handler returns (after reading 0..1 messages, with or
// without header and trailer metadata, ok or with an error) while the client is
// still sending and has not started to receive. Every send must return nil or
// io.EOF, CloseSend must succeed, and the receives then yield the handler's
// outcome: nothing may wait for the other side for ever.
func Verif_C05_HTTPFlood() {
	sends := 1 + zv.Choose("client-sends", zv.Param("floodsends", 3))
	reads := zv.Choose("handler-reads", 2)
	setsHeader := zv.Bool("handler-sets-header")
	setsTrailer := zv.Bool("handler-sets-trailer")
	handlerFails := zv.Bool("handler-fails")
	mtd := []string{"S", "C"}[zv.Choose("method", 2)]
	// a caller that has consumed the outcome need not half-close or cancel: the
	// library's goroutines must be gone all the same
	halfCloses := zv.Bool("client-half-closes-and-cancels-at-the-end")
	hooks := &verifHooks{}
	var handlerDone int32
	hooks.Stream = func(tag string, ss grpc.ServerStream) error {
		for i := 0; i < reads; i++ {
			ss.RecvMsg(&verifMsg{})
		}
		if setsHeader {
			ss.SetHeader(metadata.Pairs("h", "1"))
		}
		if setsTrailer {
			ss.SetTrailer(metadata.Pairs("t", "1"))
		}
		var ret error
		if handlerFails {
			ret = status.Error(codes.Aborted, "handler failed")
		} else if mtd == "C" {
			// the single response of a client-streaming method (a handler that
			// answers while the client still sends and does not receive waits for
			// the client: that is the application's doing, so it counts as not
			// yet returned)
			ret = ss.SendMsg(&verifMsg{Count: 9})
		}
		atomic.StoreInt32(&handlerDone, 1)
		return ret
	}
	ch, _, st := verifHTTP(hooks)
	// the response direction has a connection's buffering: the server's writes sit
	// in its write buffer until Flush (or the handler's return) and then in the
	// socket; the server does not wait for the client to read them. (The harness's
	// plain pipe would make a handler that answers before the client reads wait
	// for the client, which a connection does not.)
	st.buffered = true
	ctx, cancel := context.WithCancel(context.Background())
	defer func() {
		if halfCloses {
			cancel()
		}
	}()
	cs, err := ch.NewStream(ctx, zzfix.StreamDescOf(mtd), "/a/"+mtd)
	if err != nil {
		zv.Fail("stream-created")
		return
	}
	var clientFinished int32
	zv.GoEnv("watchdog", func() {
		zv.Quiesce()
		if atomic.LoadInt32(&handlerDone) != 0 && atomic.LoadInt32(&clientFinished) == 0 {
			zv.Fail("client-operation-blocked-after-the-handler-returned")
		}
		if halfCloses || atomic.LoadInt32(&clientFinished) == 0 {
			cancel()
		}
	})
	for i := 0; i < sends; i++ {
		e := cs.SendMsg(&verifMsg{Count: int32(i)})
		if zv.Cancelled(ctx) {
			return // the watchdog ended an application-level wait
		}
		zv.Assert(e == nil || e == io.EOF, "send-returns-nil-or-EOF")
	}
	if halfCloses {
		zv.Assert(cs.CloseSend() == nil, "close-send-succeeds")
	}
	var final error
	for i := 0; i < 3; i++ {
		if final = cs.RecvMsg(&verifMsg{}); final != nil {
			break
		}
	}
	if zv.Cancelled(ctx) {
		return
	}
	zv.Reach("outcome-received")
	if handlerFails {
		zv.Assert(status.Code(final) == codes.Aborted, "receive-yields-the-handlers-status")
	} else {
		zv.Assert(final == io.EOF, "receive-yields-the-clean-end")
	}
	atomic.StoreInt32(&clientFinished, 1)
	zv.CheckLeaks()
}
