//go:build verif

package httpgrpc

import (
	"net/http"
	"context"
	"crypto/tls"
	"errors"
	"io"

	"google.golang.org/grpc"
	"google.golang.org/grpc/credentials"
	"google.golang.org/grpc/metadata"
	"google.golang.org/grpc/peer"

	"github.com/fullstorydev/grpchan/internal/zzfix"
	zv "github.com/fullstorydev/grpchan/internal/zzverif"
)

type verifCreds struct {
	md     map[string]string
	err    error
	secure bool
	calls  int
	uri    string
}

func (c *verifCreds) GetRequestMetadata(ctx context.Context, uri ...string) (map[string]string, error) {
	c.calls++
	if len(uri) > 0 {
		c.uri = uri[0]
	}
	return c.md, c.err
}

func (c *verifCreds) RequireTransportSecurity() bool { return c.secure }

// Verif_C13_HTTP: {http, https, other scheme} x credentials requiring security or
// not x credential metadata overlapping the caller's or not (or empty, or an
// error) x TLS connection or not x unary / streaming x host with or without port.
func Verif_C13_HTTP() {
	hooks := &verifHooks{}
	// focus 0: the full product of URL / TLS / credential dimensions with the
	// caller's metadata absent or attached with NewOutgoingContext; focus 1: caller
	// metadata attached with NewOutgoingContext + AppendToOutgoingContext (URL/TLS
	// fixed); focus 2: the same grpc.Peer variable reused for a later call over a
	// plaintext connection (everything else fixed). A sum, not a product.
	focus := zv.Choose("focus", 3)
	scheme, hostHasPort, useTLS := "https", false, focus == 2
	callerKind := 0
	if focus == 0 {
		scheme = []string{"http", "https", "ftp"}[zv.Choose("scheme", 3)]
		hostHasPort = zv.Bool("host-has-port")
		useTLS = zv.Bool("tls-connection")
		callerKind = zv.Choose("caller-metadata", 2)
	} else if focus == 1 {
		callerKind = 2
	}
	streaming := zv.Bool("streaming")
	hasCreds := focus != 2 && zv.Bool("has-creds")
	credKind, secure := 0, false
	if hasCreds {
		credKind = zv.Choose("cred-metadata", 6) // 0 nil map, 1 disjoint key, 2 overlapping key, 3 error, 4 overlapping key spelled with an upper-case letter, 5 empty non-nil map
		secure = zv.Bool("creds-require-security")
	}
	callerMD := callerKind != 0

	host := "example.test"
	if hostHasPort {
		host = "example.test:8443"
	}
	var seenMD metadata.MD
	var seenPeer *peer.Peer
	hooks.Unary = func(tag string, ctx context.Context, req *verifMsg) (*verifMsg, error) {
		seenMD, _ = metadata.FromIncomingContext(ctx)
		seenPeer, _ = peer.FromContext(ctx)
		return &verifMsg{}, nil
	}
	hooks.Stream = func(tag string, ss grpc.ServerStream) error {
		seenMD, _ = metadata.FromIncomingContext(ss.Context())
		seenPeer, _ = peer.FromContext(ss.Context())
		return nil
	}
	srv := NewServer()
	srv.RegisterService(zzfix.Desc("a"), &zzfix.Srv{Name: "a", Hooks: hooks})
	var cs *tls.ConnectionState
	if useTLS {
		cs = &tls.ConnectionState{Version: tls.VersionTLS13, ServerName: "example.test"}
	}
	ut := &verifTransport{handler: srv, remoteAddr: "9.9.9.9:99", tls: cs, inline: true}
	st := &verifStreamTransport{handler: srv, remoteAddr: "9.9.9.9:99", tls: cs}
	// a response that arrived, but with a -bin header that is not base64 (added by
	// an intermediary): the call fails, the peer it came from is known all the same
	badResp := focus == 0 && !hasCreds && callerKind == 0 && zv.Bool("response-carries-an-undecodable-bin-header")
	if badResp {
		ut.respExtra = http.Header{"X-Trace-Bin": {"!! not base64 !!"}}
		st.respExtra = ut.respExtra
	}
	ch := &Channel{Transport: &verifRouter{unary: ut, stream: st}, BaseURL: verifURL(scheme, host, "/")}

	ctx := context.Background()
	if callerKind == 1 {
		ctx = metadata.NewOutgoingContext(ctx, metadata.Pairs("k1", "caller-1", "shared", "caller-s"))
	} else if callerKind == 2 {
		ctx = metadata.NewOutgoingContext(ctx, metadata.Pairs("k1", "caller-1"))
		ctx = metadata.AppendToOutgoingContext(ctx, "shared", "caller-s")
	}
	var creds *verifCreds
	var pr peer.Peer
	opts := []grpc.CallOption{grpc.Peer(&pr)}
	if hasCreds {
		creds = &verifCreds{secure: secure}
		switch credKind {
		case 1:
			creds.md = map[string]string{"auth": "token"}
		case 2:
			creds.md = map[string]string{"shared": "cred-s"}
		case 3:
			creds.err = errors.New("no credentials available")
		case 4:
			// metadata keys are case-insensitive: this is the caller's key "shared"
			creds.md = map[string]string{"Shared": "cred-s"}
		case 5:
			creds.md = map[string]string{}
		}
		opts = append(opts, grpc.PerRPCCredentials(creds))
	}

	var err error
	if !streaming {
		err = ch.Invoke(ctx, "/a/U", &verifMsg{}, &verifMsg{}, opts...)
	} else {
		var stream grpc.ClientStream
		stream, err = ch.NewStream(ctx, zzfix.StreamDescOf("S"), "/a/S", opts...)
		if err == nil {
			stream.CloseSend()
			err = stream.RecvMsg(&verifMsg{})
			if err == io.EOF {
				err = nil
			}
		}
	}
	requests := ut.requests + st.requests
	if hasCreds && secure && scheme != "https" {
		zv.Reach("insecure-refused")
		zv.Assert(err != nil, "secure-credentials-refuse-insecure-channel")
		zv.Assert(requests == 0, "no-request-issued-for-refused-credentials")
		zv.Assert(creds.calls == 0, "credentials-not-consulted-when-refused")
		zv.Assert(len(hooks.Ran) == 0, "no-handler-for-refused-credentials")
		return
	}
	if hasCreds && credKind == 3 {
		zv.Reach("credential-error")
		zv.Assert(err == creds.err, "credential-error-returned")
		zv.Assert(requests == 0, "no-request-issued-after-credential-error")
		return
	}
	if badResp {
		zv.Reach("undecodable-response-header")
		zv.Assert(pr.Addr != nil, "peer-option-reports-remote-address-of-a-failed-exchange")
		zv.Assert((pr.AuthInfo != nil) == useTLS, "peer-option-authinfo-iff-tls-of-a-failed-exchange")
		return
	}
	zv.Reach("call-made")
	zv.Assert(err == nil, "call-succeeds")
	zv.Assert(len(hooks.Ran) == 1 && requests == 1, "one-request-one-handler")
	if err != nil || len(hooks.Ran) != 1 {
		return
	}
	// metadata: caller's pairs followed by the credentials' per key
	var wantK1, wantShared, wantAuth []string
	if callerMD {
		wantK1 = []string{"caller-1"}
		wantShared = []string{"caller-s"}
	}
	if hasCreds && credKind == 1 {
		wantAuth = []string{"token"}
	}
	if hasCreds && (credKind == 2 || credKind == 4) {
		wantShared = append(wantShared, "cred-s")
	}
	verifSameList(seenMD["k1"], wantK1, "handler-sees-caller-metadata")
	verifSameList(seenMD["shared"], wantShared, "handler-sees-merged-metadata-in-order")
	verifSameList(seenMD["auth"], wantAuth, "handler-sees-credential-metadata")
	if hasCreds {
		zv.Assert(creds.calls == 1, "credentials-consulted-once")
	}
	// peer as seen by the handler
	zv.Assert(seenPeer != nil && seenPeer.Addr != nil && seenPeer.Addr.String() == "9.9.9.9:99", "handler-peer-is-remote-address")
	if seenPeer != nil {
		zv.Assert((seenPeer.AuthInfo != nil) == useTLS, "handler-peer-authinfo-iff-tls")
	}
	// peer call option
	wantAddr := host
	if !hostHasPort {
		if scheme == "https" {
			wantAddr = host + ":443"
		} else if scheme == "http" {
			wantAddr = host + ":80"
		}
	}
	zv.Observe("peer", streaming, useTLS, pr.AuthInfo != nil)
	zv.Assert(pr.Addr != nil && pr.Addr.String() == wantAddr, "peer-option-reports-remote-address")
	zv.Assert((pr.AuthInfo != nil) == useTLS, "peer-option-authinfo-iff-tls")
	if pr.AuthInfo != nil {
		ti, ok := pr.AuthInfo.(credentials.TLSInfo)
		zv.Assert(ok && ti.State.ServerName == "example.test", "peer-option-carries-connection-state")
	}
	if focus == 2 {
		// the same peer variable used for a later call over a plaintext connection
		// reports that connection, not the earlier one
		ut2 := &verifTransport{handler: srv, remoteAddr: "9.9.9.9:99", inline: true}
		st2 := &verifStreamTransport{handler: srv, remoteAddr: "9.9.9.9:99"}
		ch2 := &Channel{Transport: &verifRouter{unary: ut2, stream: st2}, BaseURL: verifURL("http", "plain.test:81", "/")}
		var err2 error
		if !streaming {
			err2 = ch2.Invoke(context.Background(), "/a/U", &verifMsg{}, &verifMsg{}, grpc.Peer(&pr))
		} else {
			s2, e := ch2.NewStream(context.Background(), zzfix.StreamDescOf("S"), "/a/S", grpc.Peer(&pr))
			err2 = e
			if e == nil {
				s2.CloseSend()
				if e2 := s2.RecvMsg(&verifMsg{}); e2 != io.EOF {
					err2 = e2
				}
			}
		}
		zv.Assert(err2 == nil, "second-call-succeeds")
		zv.Assert(pr.Addr != nil && pr.Addr.String() == "plain.test:81", "reused-peer-variable-reports-the-new-address")
		zv.Assert(pr.AuthInfo == nil, "reused-peer-variable-has-no-auth-info-for-a-plaintext-connection")
	}
}

func verifSameList(got, want []string, label string) {
	zv.Assert(len(got) == len(want), label)
	if len(got) == len(want) {
		for i := range want {
			zv.Assert(got[i] == want[i], label)
		}
	}
}
