//go:build verif

package httpgrpc

import (
	"context"
	"math"
	"net/http"
	"strconv"
	"time"

	"google.golang.org/grpc/metadata"

	zv "github.com/fullstorydev/grpchan/internal/zzverif"
)

func verifUnit(c byte) (time.Duration, bool) {
	switch c {
	case 'H':
		return time.Hour, true
	case 'M':
		return time.Minute, true
	case 'S':
		return time.Second, true
	case 'm':
		return time.Millisecond, true
	case 'u':
		return time.Microsecond, true
	case 'n':
		return time.Nanosecond, true
	}
	return 0, false
}

// Verif_C09_Server: for every GRPC-Timeout header string (all bytes, all lengths
// up to the cap) the server neither panics nor rejects the request; every string
// of the form <1..k digits><unit> gives the handler exactly value*unit, saturating
// at the largest duration, never negative.
func Verif_C09_Server() {
	hv := zv.String("grpc-timeout", zv.Param("hdrcap", 10))
	h := http.Header{"Grpc-Timeout": {hv}}
	ctx, cancel, err := contextFromHeaders(context.Background(), h) // real code; a panic is a violation
	defer cancel()
	zv.Assert(err == nil, "timeout-header-never-rejects-request")
	if md, ok := metadata.FromIncomingContext(ctx); ok {
		zv.Assert(len(md["grpc-timeout"]) == 1 && md["grpc-timeout"][0] == hv, "header-also-visible-as-metadata")
	} else {
		zv.Fail("incoming-metadata-present")
	}

	// reference parse, after the real code ran
	n := len(hv)
	wellFormed := n >= 2
	var unit time.Duration
	if wellFormed {
		unit, wellFormed = verifUnit(hv[n-1])
	}
	var val int64
	if wellFormed {
		for i := 0; i < n-1; i++ {
			c := hv[i]
			if c < '0' || c > '9' {
				wellFormed = false
				break
			}
			val = val*10 + int64(c-'0') // at most 11 digits within the cap: no overflow
		}
	}
	d, has := zv.TimeoutOf(ctx)
	if !wellFormed {
		zv.Reach("ill-formed")
		return
	}
	zv.Reach("well-formed")
	zv.Observe("parsed", hv, val, int64(unit))
	zv.Assert(has, "well-formed-timeout-gives-deadline")
	if !has {
		return
	}
	if val > math.MaxInt64/int64(unit) {
		zv.Reach("saturating")
		zv.Assert(zv.DurationIs(d, time.Duration(math.MaxInt64)), "huge-timeout-saturates")
	} else {
		zv.Reach("exact")
		zv.Assert(zv.DurationIs(d, time.Duration(val)*unit), "timeout-is-value-times-unit")
	}
	if zv.Symbolic() {
		zv.Assert(d >= 0, "well-formed-timeout-never-negative")
	} else {
		zv.Assert(d > -2*time.Second, "well-formed-timeout-never-negative")
	}
}

// Verif_C09_Client: for every remaining duration t (all int64 values) the client
// sends "<m>m" with m = max(1, floor(t / 1ms)), i.e. t - 1ms < m*1ms <= max(t, 1ms);
// without a deadline it sends no timeout header.
func Verif_C09_Client() {
	if zv.Bool("no-deadline") {
		h := headersFromContext(context.Background())
		zv.Reach("no-deadline")
		zv.Assert(len(h["Grpc-Timeout"]) == 0 && h.Get("GRPC-Timeout") == "", "no-deadline-no-header")
		return
	}
	t := zv.Int64("remaining-ns")
	zv.SetUntil(time.Duration(t))
	parent := context.Background()
	if zv.Bool("outgoing-metadata-carries-a-stale-grpc-timeout") {
		// e.g. a handler forwarding its incoming metadata on an onward call: the
		// time-out sent is the one of this call's own deadline, and only that
		parent = metadata.NewOutgoingContext(parent, metadata.Pairs("grpc-timeout", "1H"))
	}
	ctx, cancel := context.WithTimeout(parent, time.Duration(t))
	defer cancel()
	h := headersFromContext(ctx)
	vals := h["Grpc-Timeout"]
	zv.Assert(len(vals) == 1, "deadline-gives-one-header")
	if len(vals) != 1 {
		return
	}
	hv := vals[0]
	zv.Assert(len(hv) >= 2 && hv[len(hv)-1] == 'm', "unit-is-milliseconds")
	if len(hv) < 2 {
		return
	}
	m, err := strconv.ParseInt(hv[:len(hv)-1], 10, 64)
	zv.Assert(err == nil, "value-is-decimal")
	if err != nil {
		return
	}
	zv.Reach("emitted")
	zv.Observe("emitted", m >= 1) // the exact value depends on the wall clock natively
	const ms = int64(time.Millisecond)
	slack := int64(0)
	if !zv.Symbolic() {
		slack = int64(time.Second) // wall clock elapses between WithTimeout and the measurement
	}
	zv.Assert(m >= 1, "at-least-one-millisecond")
	zv.Assert(m <= math.MaxInt64/ms, "value-fits")
	if m > math.MaxInt64/ms {
		return
	}
	if t >= ms {
		zv.Assert(m*ms <= t, "never-extends-deadline")
		zv.Assert(t-ms-slack < m*ms, "never-earlier-than-granularity")
	} else {
		zv.Assert(m == 1, "sub-millisecond-rounds-up-to-one")
	}
}
