//go:build verif

package httpgrpc

import (
	"context"
	"io"
	"time"

	"google.golang.org/grpc"
	"google.golang.org/grpc/codes"
	"google.golang.org/grpc/metadata"
	"google.golang.org/grpc/status"

	"github.com/fullstorydev/grpchan/internal/zzfix"
	zv "github.com/fullstorydev/grpchan/internal/zzverif"
)

func verifEndCtx(deadline bool) (context.Context, context.CancelFunc, codes.Code) {
	zv.SetUntil(time.Hour) // the remaining time is not the subject here
	ctx, cancel := zv.EndableContext(deadline)
	if deadline {
		return ctx, cancel, codes.DeadlineExceeded
	}
	return ctx, cancel, codes.Canceled
}

// Verif_C04_HTTPUnary: a unary call over HTTP whose context ends at any scheduling
// point; the handler responds, waits for its context and returns its error, fails
// with its own status, or returns a context error of its own.
func Verif_C04_HTTPUnary() {
	deadline := zv.Bool("deadline-instead-of-cancel")
	behaviour := zv.Choose("handler", 5) // 0 respond, 1 wait ctx + return ctx.Err(), 2 fail Aborted, 3 return context.Canceled, 4 return context.DeadlineExceeded
	hooks := &verifHooks{}
	hooks.Unary = func(tag string, ctx context.Context, req *verifMsg) (*verifMsg, error) {
		switch behaviour {
		case 1:
			<-ctx.Done()
			return nil, ctx.Err()
		case 2:
			return nil, status.Error(codes.Aborted, "handler failed")
		case 3:
			return nil, context.Canceled
		case 4:
			return nil, context.DeadlineExceeded
		}
		return &verifMsg{Count: 7}, nil
	}
	ch, _, _ := verifHTTP(hooks)
	ctx, cancel, endCode := verifEndCtx(deadline)
	defer cancel()
	resp := &verifMsg{}
	err := ch.Invoke(ctx, "/a/U", &verifMsg{Count: 1}, resp)
	ended := zv.Cancelled(ctx)
	st, isStatus := status.FromError(err)
	zv.Observe("outcome", behaviour, err == nil, isStatus)
	switch {
	case err == nil:
		zv.Reach("success")
		zv.Assert(behaviour == 0, "success-only-if-handler-succeeded")
		zv.Assert(resp.Count == 7, "success-delivers-the-response")
	case !isStatus:
		zv.Reach("non-status-error")
		zv.Assert(err != io.EOF, "never-a-bare-EOF")
		zv.Fail("error-is-a-grpc-status")
	case behaviour == 3 && st.Code() == codes.Canceled, behaviour == 4 && st.Code() == codes.DeadlineExceeded:
		zv.Reach("handler-context-error")
	case st.Code() == endCode:
		zv.Reach("ended")
		// over HTTP the server applies the propagated deadline itself, so the
		// deadline status may also come from the handler side
		zv.Assert(ended || deadline, "cancellation-status-only-after-the-context-ended")
	default:
		zv.Reach("handler-status")
		zv.Assert(behaviour == 2 && st.Code() == codes.Aborted, "error-is-the-handlers-status-or-the-cancellation-status")
	}
	if (behaviour == 3 || behaviour == 4) && err != nil && isStatus && !ended {
		want := codes.Canceled
		if behaviour == 4 {
			want = codes.DeadlineExceeded
		}
		zv.Assert(st.Code() == want, "handler-context-error-maps-to-matching-code")
	}
	zv.CheckLeaks()
}

// Verif_C04_HTTPStream: server-streaming / bidi / client-streaming calls over HTTP.
func Verif_C04_HTTPStream() {
	deadline := zv.Bool("deadline-instead-of-cancel")
	mtd := []string{"R", "S", "C"}[zv.Choose("method", 3)]
	nResp := zv.Param("responses", 1)
	behaviour := zv.Choose("handler", 4) // 0 ok, 1 wait ctx + return ctx.Err(), 2 fail Aborted, 3 return context.Canceled
	hooks := &verifHooks{}
	hooks.Stream = func(tag string, ss grpc.ServerStream) error {
		for {
			if err := ss.RecvMsg(&verifMsg{}); err != nil {
				break
			}
			if mtd == "R" {
				break
			}
		}
		n := nResp
		if mtd == "C" {
			n = 1
		}
		for i := 0; i < n; i++ {
			if err := ss.SendMsg(&verifMsg{Count: int32(i + 1)}); err != nil {
				return err
			}
		}
		ss.SetTrailer(metadata.Pairs("t", "v"))
		switch behaviour {
		case 1:
			<-ss.Context().Done()
			return ss.Context().Err()
		case 2:
			return status.Error(codes.Aborted, "handler failed")
		case 3:
			return context.Canceled
		}
		return nil
	}
	ch, _, _ := verifHTTP(hooks)
	ctx, cancel, endCode := verifEndCtx(deadline)
	defer cancel()
	cs, err := ch.NewStream(ctx, zzfix.StreamDescOf(mtd), "/a/"+mtd)
	if err != nil {
		zv.Fail("stream-created")
		return
	}
	cs.SendMsg(&verifMsg{Count: 1})
	cs.CloseSend()
	if zv.Bool("client-is-slow") {
		zv.Quiesce() // the client only starts receiving once everything else has settled
	}
	want := nResp
	if mtd == "C" {
		want = 1
	}
	got := 0
	var final error
	for {
		m := &verifMsg{}
		e := cs.RecvMsg(m)
		if e != nil {
			final = e
			break
		}
		got++
		zv.Assert(m.Count == int32(got), "received-prefix-intact")
		if got > want {
			zv.Fail("no-more-messages-than-sent")
			return
		}
	}
	ended := zv.Cancelled(ctx)
	st, isStatus := status.FromError(final)
	zv.Observe("outcome", mtd, behaviour, got, final == io.EOF, final.Error())
	switch {
	case final == io.EOF:
		zv.Reach("success")
		zv.Assert(behaviour == 0, "success-only-if-handler-succeeded")
		zv.Assert(got == want, "success-delivers-every-message")
		zv.Assert(len(cs.Trailer()["t"]) == 1, "success-delivers-the-trailers")
	case !isStatus:
		zv.Reach("non-status-error")
		zv.Fail("error-is-a-grpc-status")
	case behaviour == 3 && st.Code() == codes.Canceled:
		zv.Reach("handler-context-error")
	case st.Code() == endCode:
		zv.Reach("ended")
		zv.Assert(ended || deadline, "cancellation-status-only-after-the-context-ended")
	default:
		zv.Reach("handler-status")
		zv.Assert(behaviour == 2 && st.Code() == codes.Aborted, "error-is-the-handlers-status-or-the-cancellation-status")
	}
	if behaviour == 3 && final != io.EOF && isStatus && !ended {
		zv.Assert(st.Code() == codes.Canceled, "handler-context-error-maps-to-matching-code")
	}
	// receives after the end, once the call has settled completely (the reader has
	// recorded whatever it met last, e.g. a read that failed half way through the
	// trailer frame because the context ended): still the end of the stream or a
	// status, never a bare error
	if zv.Bool("client-receives-again-after-the-end") {
		zv.Quiesce()
		again := cs.RecvMsg(&verifMsg{})
		_, againStatus := status.FromError(again)
		zv.Assert(again == io.EOF || (again != nil && againStatus), "later-receive-is-end-of-stream-or-a-grpc-status")
		if final == io.EOF {
			zv.Assert(again == io.EOF, "later-receive-after-success-is-end-of-stream")
		}
	}
	zv.CheckLeaks()
}
