//go:build verif

package httpgrpc

import (
	"bytes"
	"context"
	"io"
	"net/http"

	"google.golang.org/protobuf/proto"

	zv "github.com/fullstorydev/grpchan/internal/zzverif"
)

// Verif_C02_UnaryCut: the reply to a unary call (a message with a symbolic payload
// byte and scalars, in its real encoding) breaks off after any number of body
// bytes with a read error (connection lost). The call must then fail: a response
// that did not arrive completely is never reported as a successful call with
// whatever prefix happened to decode.
func Verif_C02_UnaryCut() {
	p := zv.Bytes("payload", 1)
	full, err := proto.Marshal(&verifMsg{Payload: p, Count: zv.Int32("count"), Code: 3})
	if err != nil {
		zv.Fail("encode-response")
		return
	}
	cut := zv.Choose("cut-offset", len(full)+1) // len(full) = complete
	rb := &verifBody{data: full[:cut]}
	if cut < len(full) {
		rb.endErr = io.ErrUnexpectedEOF
	}
	ch := &Channel{Transport: &verifCanned{status: 200, header: http.Header{"Content-Type": {UnaryRpcContentType_V1}}, body: rb},
		BaseURL: verifURL("http", "h", "/")}
	resp := &verifMsg{}
	cerr := ch.Invoke(context.Background(), "/a/U", &verifMsg{}, resp)
	if cut < len(full) {
		zv.Reach("reply-cut")
		zv.Assert(cerr != nil, "a-reply-that-broke-off-is-a-failed-call")
		return
	}
	zv.Reach("reply-complete")
	zv.Assert(cerr == nil, "complete-reply-succeeds")
	zv.Assert(bytes.Equal(resp.Payload, p) && resp.Code == 3, "complete-reply-is-delivered-intact")
}
