//go:build verif

package httpgrpc

// HTTP hop of the harnesses: a RoundTripper that hands the request to the real
// grpchan handler with a recording ResponseWriter (no sockets, no net/http server).

import (
	"bytes"
	"context"
	"crypto/tls"
	"errors"
	"fmt"
	"io"
	"io/ioutil"
	"net/http"
	"net/url"
	"sync"

	"google.golang.org/grpc"

	"github.com/fullstorydev/grpchan/internal/zzfix"
	zv "github.com/fullstorydev/grpchan/internal/zzverif"
)

type verifMsg = zzfix.Msg
type verifHooks = zzfix.Hooks

// verifRecorder is the server's ResponseWriter. As with net/http, the header map
// is snapshotted when the status line is written.
type verifRecorder struct {
	hdr         http.Header
	sent        http.Header
	code        int
	body        []byte
	wroteHeader bool
	writes      int
	failAfter   int // writes fail once this many succeeded (-1: never)
}

func newVerifRecorder() *verifRecorder { return &verifRecorder{failAfter: -1} }

func (r *verifRecorder) Header() http.Header {
	if r.hdr == nil {
		r.hdr = http.Header{}
	}
	return r.hdr
}

func (r *verifRecorder) WriteHeader(code int) {
	if r.wroteHeader {
		return
	}
	r.wroteHeader = true
	r.code = code
	r.sent = http.Header{}
	for k, vs := range r.Header() {
		r.sent[k] = append([]string(nil), vs...)
	}
}

func (r *verifRecorder) Write(b []byte) (int, error) {
	if !r.wroteHeader {
		r.WriteHeader(http.StatusOK)
	}
	if r.failAfter >= 0 && r.writes >= r.failAfter {
		return 0, io.ErrClosedPipe
	}
	r.writes++
	r.body = append(r.body, b...)
	return len(b), nil
}

func (r *verifRecorder) Flush() {}

// verifTransport is the client's RoundTripper for unary (request/response)
// exchanges: the handler runs inline.
type verifTransport struct {
	handler    http.Handler
	requests   int
	lastReq    *http.Request
	tls        *tls.ConnectionState
	remoteAddr string
	serverCtx  context.Context
	rec        *verifRecorder
	inline     bool // run the handler in the caller's goroutine (sequential harnesses)
	respExtra  http.Header // headers an intermediary adds to the response
}

func (t *verifTransport) RoundTrip(req *http.Request) (*http.Response, error) {
	t.requests++
	t.lastReq = req
	cctx := req.Context()
	if err := cctx.Err(); err != nil {
		return nil, err
	}
	parent := t.serverCtx
	if parent == nil {
		parent = context.Background()
	}
	// the server's request context ends when the client goes away
	sctx, scancel := context.WithCancel(parent)
	body := req.Body
	if body == nil {
		body = http.NoBody
	}
	reqHdr, herr := verifWire(req.Header, true)
	if herr != nil {
		scancel()
		return nil, herr
	}
	sreq := (&http.Request{
		Method: req.Method, URL: req.URL, Proto: "HTTP/1.1", ProtoMajor: 1, ProtoMinor: 1,
		Header: reqHdr, Body: body, Host: req.Host, RemoteAddr: t.remoteAddr, TLS: t.tls,
	}).WithContext(sctx)
	rec := newVerifRecorder()
	t.rec = rec
	if t.inline {
		t.handler.ServeHTTP(rec, sreq)
		scancel()
	} else {
		done := make(chan struct{})
		go func() {
			t.handler.ServeHTTP(rec, sreq)
			scancel()
			close(done)
		}()
		select {
		case <-done:
		case <-cctx.Done():
			scancel()
			return nil, cctx.Err()
		}
	}
	if !rec.wroteHeader {
		rec.WriteHeader(http.StatusOK)
	}
	return &http.Response{
		StatusCode: rec.code, Status: fmt.Sprintf("%d %s", rec.code, http.StatusText(rec.code)),
		Proto: "HTTP/1.1", ProtoMajor: 1, ProtoMinor: 1,
		Header: verifAddHeaders(verifWireResp(rec.sent), t.respExtra), Body: ioutil.NopCloser(bytes.NewReader(rec.body)), TLS: t.tls, Request: req,
	}, nil
}

// verifWire applies the HTTP/1.1 wire contract to a header block (see
// zv.WireHeaderValue). For request headers an invalid value makes the client's
// transport refuse the request, as net/http does.
func verifWire(h http.Header, request bool) (http.Header, error) {
	out := http.Header{}
	for k, vs := range h {
		for _, v := range vs {
			if request && !zv.ValidRequestHeaderValue(v) {
				return nil, errInvalidHeader
			}
			out[k] = append(out[k], zv.WireHeaderValue(v))
		}
	}
	return out, nil
}

func verifWireResp(h http.Header) http.Header {
	out, _ := verifWire(h, false)
	return out
}

var errInvalidHeader = errors.New("net/http: invalid header field value")

// verifMux is a recording Mux for HandleServices with exact-match routing.
type verifMux struct {
	patterns []string
	handlers []func(http.ResponseWriter, *http.Request)
}

func (m *verifMux) HandleFunc(pattern string, h func(http.ResponseWriter, *http.Request)) {
	m.patterns = append(m.patterns, pattern)
	m.handlers = append(m.handlers, h)
}

func (m *verifMux) ServeHTTP(w http.ResponseWriter, r *http.Request) {
	for i, p := range m.patterns {
		if p == r.URL.Path {
			m.handlers[i](w, r)
			return
		}
	}
	http.NotFound(w, r)
}

func verifURL(scheme, host, path string) *url.URL {
	return &url.URL{Scheme: scheme, Host: host, Path: path}
}

// verifStreamRecorder is the ResponseWriter of the streaming hop: the body goes to
// a pipe that the client reads as the response body.
type verifStreamRecorder struct {
	hdr         http.Header
	sent        http.Header
	code        int
	wroteHeader bool
	ready       chan struct{}
	pw          verifBodyWriter
	body        []byte // everything written, for inspection
	cut         int    // if >= 0: the connection breaks after this many body bytes
	// buffered: like a net/http server that lets the response go out while the
	// request body is still open (HTTP/2, or HTTP/1.1 with EnableFullDuplex), what
	// the handler writes sits in the server's write buffer until Flush or until the
	// handler returns; the status line and headers go out with the first flush.
	buffered bool
	pending  []byte
	flushed  bool
}

func (r *verifStreamRecorder) Header() http.Header {
	if r.hdr == nil {
		r.hdr = http.Header{}
	}
	return r.hdr
}

func (r *verifStreamRecorder) WriteHeader(code int) {
	if r.wroteHeader {
		return
	}
	r.wroteHeader = true
	r.code = code
	r.sent = http.Header{}
	for k, vs := range r.Header() {
		r.sent[k] = append([]string(nil), vs...)
	}
	if !r.buffered {
		close(r.ready)
	}
}

func (r *verifStreamRecorder) Write(b []byte) (int, error) {
	if !r.wroteHeader {
		r.WriteHeader(http.StatusOK)
	}
	r.body = append(r.body, b...)
	if r.buffered {
		r.pending = append(r.pending, b...)
		return len(b), nil
	}
	return r.pw.Write(b)
}

func (r *verifStreamRecorder) Flush() {
	if !r.buffered {
		return
	}
	if !r.wroteHeader {
		r.WriteHeader(http.StatusOK)
	}
	if !r.flushed {
		r.flushed = true
		close(r.ready)
	}
	if len(r.pending) > 0 {
		p := r.pending
		r.pending = nil
		r.pw.Write(p)
	}
}

// verifStreamTransport runs the handler in its own goroutine; RoundTrip returns
// once the response header is written, the response body is a pipe. When the
// client's context ends, the transport fails the response body with the context's
// error and cancels the server's request context (what net/http does when the
// client goes away).
type verifStreamTransport struct {
	handler    http.Handler
	requests   int
	tls        *tls.ConnectionState
	remoteAddr string
	rec        *verifStreamRecorder
	done       chan struct{} // closed when the handler has returned
	buffered   bool          // see verifStreamRecorder.buffered
	respExtra  http.Header   // headers an intermediary adds to the response
}

func (t *verifStreamTransport) RoundTrip(req *http.Request) (*http.Response, error) {
	t.requests++
	cctx := req.Context()
	if err := cctx.Err(); err != nil {
		return nil, err
	}
	sctx, scancel := context.WithCancel(context.Background())
	body := req.Body
	if body == nil {
		body = http.NoBody
	}
	reqHdr, herr := verifWire(req.Header, true)
	if herr != nil {
		scancel()
		return nil, herr
	}
	sreq := (&http.Request{
		Method: req.Method, URL: req.URL, Proto: "HTTP/1.1", ProtoMajor: 1, ProtoMinor: 1,
		Header: reqHdr, Body: body, Host: req.Host, RemoteAddr: t.remoteAddr, TLS: t.tls,
	}).WithContext(sctx)
	var pr io.ReadCloser
	var pw verifBodyWriter
	if t.buffered {
		sb := newVerifSockBuf()
		pr, pw = sb, sb
	} else {
		pr, pw = io.Pipe()
	}
	rec := &verifStreamRecorder{ready: make(chan struct{}), pw: pw, cut: -1, buffered: t.buffered}
	t.rec = rec
	t.done = make(chan struct{})
	go func() {
		t.handler.ServeHTTP(rec, sreq)
		if !rec.wroteHeader {
			rec.WriteHeader(http.StatusOK)
		}
		rec.Flush() // the server flushes when the handler returns
		if sb, ok := pw.(*verifSockBuf); ok {
			sb.CloseWrite()
		} else {
			pw.Close()
		}
		scancel()
		close(t.done)
	}()
	go func() {
		select {
		case <-cctx.Done():
			// the client's transport fails pending and later body reads with the
			// context's error
			pw.CloseWithError(cctx.Err())
			scancel()
		case <-t.done:
		}
	}()
	select {
	case <-rec.ready:
	case <-cctx.Done():
		return nil, cctx.Err()
	}
	return &http.Response{
		StatusCode: rec.code, Status: fmt.Sprintf("%d %s", rec.code, http.StatusText(rec.code)),
		Proto: "HTTP/1.1", ProtoMajor: 1, ProtoMinor: 1,
		Header: verifAddHeaders(verifWireResp(rec.sent), t.respExtra), Body: pr, TLS: t.tls, Request: req,
	}, nil
}

type verifBodyWriter interface {
	Write(p []byte) (int, error)
	Close() error
	CloseWithError(err error) error
}

// verifSockBuf is the response direction of a connection with socket buffering:
// what the server has flushed is queued (up to 64 writes, far more than any
// harness produces) and the server goes on; the client reads it when it gets to
// it. The writer's Close ends the stream (EOF after the queued data),
// CloseWithError fails pending and later reads, the reader's Close makes writes
// fail.
type verifSockBuf struct {
	ch      chan []byte
	cur     []byte
	failed  chan struct{}
	failErr error
	rclosed chan struct{}
	wclosed bool
	once    sync.Once
	ronce   sync.Once
	wonce   sync.Once
}

func newVerifSockBuf() *verifSockBuf {
	return &verifSockBuf{ch: make(chan []byte, 64), failed: make(chan struct{}), rclosed: make(chan struct{})}
}

func (b *verifSockBuf) Write(p []byte) (int, error) {
	c := append([]byte(nil), p...)
	select {
	case <-b.rclosed:
		return 0, io.ErrClosedPipe
	case <-b.failed:
		return 0, io.ErrClosedPipe
	default:
	}
	select {
	case b.ch <- c:
		return len(p), nil
	case <-b.rclosed:
		return 0, io.ErrClosedPipe
	case <-b.failed:
		return 0, io.ErrClosedPipe
	}
}

func (b *verifSockBuf) Read(p []byte) (int, error) {
	if len(b.cur) == 0 {
		select {
		case c, ok := <-b.ch:
			if !ok {
				return 0, io.EOF
			}
			b.cur = c
		case <-b.failed:
			return 0, b.failErr
		case <-b.rclosed:
			return 0, io.ErrClosedPipe
		}
	}
	n := copy(p, b.cur)
	b.cur = b.cur[n:]
	return n, nil
}

// Close is called by both ends (http.Response.Body.Close by the client, the
// transport when the handler has returned): the first call from the writer side
// is distinguished by CloseWrite.
func (b *verifSockBuf) Close() error {
	b.ronce.Do(func() { close(b.rclosed) })
	return nil
}

func (b *verifSockBuf) CloseWrite() {
	b.wonce.Do(func() { close(b.ch) })
}

func (b *verifSockBuf) CloseWithError(err error) error {
	b.once.Do(func() {
		b.failErr = err
		close(b.failed)
	})
	return nil
}

// verifHTTP builds a client channel and server for services a and b.
func verifHTTP(h *verifHooks, opts ...ServerOption) (*Channel, *verifTransport, *verifStreamTransport) {
	srv := NewServer(opts...)
	srv.RegisterService(zzfix.Desc("a"), &zzfix.Srv{Name: "a", Hooks: h})
	srv.RegisterService(zzfix.Desc("b"), &zzfix.Srv{Name: "b", Hooks: h})
	ut := &verifTransport{handler: srv, remoteAddr: "1.2.3.4:5"}
	st := &verifStreamTransport{handler: srv, remoteAddr: "1.2.3.4:5"}
	return &Channel{Transport: &verifRouter{unary: ut, stream: st}, BaseURL: verifURL("http", "h", "/")}, ut, st
}

// verifRouter picks the inline hop for unary exchanges and the piped hop for
// streaming ones (by content type, as the handlers themselves do).
type verifRouter struct {
	unary  *verifTransport
	stream *verifStreamTransport
}

func (r *verifRouter) RoundTrip(req *http.Request) (*http.Response, error) {
	if req.Header.Get("Content-Type") == StreamRpcContentType_V1 {
		return r.stream.RoundTrip(req)
	}
	return r.unary.RoundTrip(req)
}

// VerifHTTPChannel is the exported form of verifHTTP for harnesses that live
// outside this package (cross-transport harnesses).
func VerifHTTPChannel(h *zzfix.Hooks) grpc.ClientConnInterface {
	ch, _, _ := verifHTTP(h)
	return ch
}

// verifAddHeaders adds what an intermediary (proxy, tracing middleware) put on the
// response to the headers the server sent.
func verifAddHeaders(h, extra http.Header) http.Header {
	for k, vs := range extra {
		for _, v := range vs {
			h.Add(k, v)
		}
	}
	return h
}
