//go:build verif

package httpgrpc

import (
	"bytes"
	"context"
	"fmt"
	"io"

	"google.golang.org/grpc"
	"google.golang.org/grpc/codes"

	"github.com/fullstorydev/grpchan/internal/zzfix"
	zv "github.com/fullstorydev/grpchan/internal/zzverif"
)

func verifPayload(name string) []byte { return zv.Bytes(name, zv.Param("payloadcap", 1)) }

// Verif_C01_HTTP: unary, server-streaming, client-streaming and half-duplex bidi
// RPCs over the HTTP transport with n messages and symbolic payload bytes; every
// message received on either side is the next one the peer sent, intact, and a
// successful end means all arrived.
func Verif_C01_HTTP() {
	kind := []string{"U", "R", "C", "S"}[zv.Choose("kind", 4)]
	n := zv.Choose("messages", zv.Param("maxmsgs", 2)+1)
	var payloads [][]byte
	for i := 0; i < n; i++ {
		payloads = append(payloads, verifPayload(fmt.Sprintf("payload#%d", i)))
	}
	reqPayload := verifPayload("request-payload")
	hooks := &verifHooks{}
	hooks.Unary = func(tag string, ctx context.Context, req *verifMsg) (*verifMsg, error) {
		zv.Assert(bytes.Equal(req.Payload, reqPayload) && req.Count == 7, "handler-receives-request-intact")
		return &verifMsg{Payload: req.Payload, Count: 8}, nil
	}
	hooks.Stream = func(tag string, ss grpc.ServerStream) error {
		switch kind {
		case "R":
			m := &verifMsg{}
			if err := ss.RecvMsg(m); err != nil {
				zv.Fail("handler-receives-request")
				return nil
			}
			zv.Assert(bytes.Equal(m.Payload, reqPayload), "handler-receives-request-intact")
			for i := 0; i < n; i++ {
				ss.SendMsg(&verifMsg{Payload: payloads[i], Count: int32(i)})
			}
			return nil
		case "C":
			i := 0
			for {
				m := &verifMsg{}
				if err := ss.RecvMsg(m); err != nil {
					break
				}
				zv.Assert(i < n, "handler-never-receives-more-than-was-sent")
				if i < n {
					zv.Assert(bytes.Equal(m.Payload, payloads[i]) && m.Count == int32(i), "handler-receives-next-message-intact")
				}
				i++
			}
			zv.Assert(i == n, "handler-received-every-message")
			return ss.SendMsg(&verifMsg{Count: int32(i), Payload: reqPayload})
		}
		// half-duplex bidi: receive everything, then echo everything
		var all []*verifMsg
		for {
			m := &verifMsg{}
			if err := ss.RecvMsg(m); err != nil {
				break
			}
			all = append(all, m)
		}
		zv.Assert(len(all) == n, "handler-received-every-message")
		for _, m := range all {
			ss.SendMsg(m)
		}
		return nil
	}
	ch, _, _ := verifHTTP(hooks)
	ctx, cancel := context.WithCancel(context.Background())
	defer cancel()
	if kind == "U" {
		resp := &verifMsg{}
		err := ch.Invoke(ctx, "/a/U", &verifMsg{Payload: reqPayload, Count: 7}, resp)
		zv.Assert(err == nil, "unary-succeeds")
		zv.Assert(bytes.Equal(resp.Payload, reqPayload) && resp.Count == 8, "caller-receives-response-intact")
		zv.Reach("done")
		return
	}
	cs, err := ch.NewStream(ctx, zzfix.StreamDescOf(kind), "/a/"+kind)
	if err != nil {
		zv.Fail("stream-created")
		return
	}
	if kind == "R" {
		cs.SendMsg(&verifMsg{Payload: reqPayload})
	} else {
		for i := 0; i < n; i++ {
			if e := cs.SendMsg(&verifMsg{Payload: payloads[i], Count: int32(i)}); e != nil {
				zv.Fail("client-send-succeeds")
			}
		}
	}
	cs.CloseSend()
	if kind == "C" {
		m := &verifMsg{}
		zv.Assert(cs.RecvMsg(m) == nil, "client-stream-response-arrives")
		zv.Assert(m.Count == int32(n) && bytes.Equal(m.Payload, reqPayload), "response-intact")
		zv.Reach("done")
		zv.CheckLeaks()
		return
	}
	got := 0
	for {
		m := &verifMsg{}
		e := cs.RecvMsg(m)
		if e != nil {
			zv.Assert(e == io.EOF, "stream-ends-cleanly")
			break
		}
		zv.Assert(got < n, "client-never-receives-more-than-was-sent")
		if got < n {
			zv.Assert(bytes.Equal(m.Payload, payloads[got]) && m.Count == int32(got), "client-receives-next-message-intact")
		}
		got++
	}
	zv.Assert(got == n, "successful-end-means-every-message-arrived")
	zv.Reach("done")
	zv.CheckLeaks()
}

// Verif_C01_HTTPCut: the response of a server-streaming call (k messages with
// symbolic payloads and a count, then the trailer, in the real encoding) is cut at
// any byte offset, ending cleanly or abruptly. Whatever the client has received at
// any moment is a prefix of what was sent, each message intact (a frame that did
// not arrive completely is never delivered), and only the complete response ends
// successfully.
func Verif_C01_HTTPCut() {
	k := zv.Choose("messages", zv.Param("cutmsgs", 1)+1)
	var full bytes.Buffer
	var payloads [][]byte
	codec := clientCodec()
	for i := 0; i < k; i++ {
		p := verifPayload(fmt.Sprintf("payload#%d", i))
		payloads = append(payloads, p)
		if err := writeProtoMessage(&full, codec, &verifMsg{Payload: p, Count: int32(i + 1), Code: 5}, false); err != nil {
			zv.Fail("encode-data-frame")
			return
		}
	}
	tr := HttpTrailer{Code: int32(codes.OK), Message: "OK"}
	if err := writeProtoMessage(&full, codec, &tr, true); err != nil {
		zv.Fail("encode-trailer-frame")
		return
	}
	enc := full.Bytes()
	cut := zv.Choose("cut-offset", len(enc)+1) // len(enc) = not cut
	rb := &verifBody{data: enc[:cut]}
	if zv.Bool("abrupt-end") {
		rb.endErr = io.ErrUnexpectedEOF
	}
	ch := &Channel{Transport: &verifCanned{status: 200, body: rb}, BaseURL: verifURL("http", "h", "/")}
	ctx, cancel := context.WithCancel(context.Background())
	defer cancel()
	cs, err := ch.NewStream(ctx, zzfix.StreamDescOf("R"), "/a/R")
	if err != nil {
		zv.Fail("stream-created")
		return
	}
	cs.CloseSend()
	got := 0
	for {
		m := &verifMsg{}
		e := cs.RecvMsg(m)
		if e != nil {
			if e == io.EOF {
				zv.Assert(got == k && cut == len(enc), "successful-end-means-every-message-arrived")
			}
			break
		}
		zv.Assert(got < k, "client-never-receives-more-than-was-sent")
		if got >= k {
			return
		}
		zv.Assert(bytes.Equal(m.Payload, payloads[got]) && m.Count == int32(got+1) && m.Code == 5, "client-receives-next-message-intact")
		got++
	}
	zv.Reach("cut-done")
}
