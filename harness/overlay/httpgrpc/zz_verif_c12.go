//go:build verif

package httpgrpc

import (
	"context"
	"io"
	"net/http"
	"path"

	"google.golang.org/grpc/codes"
	"google.golang.org/grpc/status"

	"github.com/fullstorydev/grpchan"
	"github.com/fullstorydev/grpchan/internal/zzfix"
	zv "github.com/fullstorydev/grpchan/internal/zzverif"
)

// Verif_C12_HTTP: client and server configured with the same absolute base path
// (every string "/"+s, s up to the cap), through Server and through
// HandleServices; method name symbolic. The registered handler runs iff the
// (path-cleaned) name is its "/service/method"; every other name gives NotFound
// without running a handler.
func Verif_C12_HTTP() {
	hooks := &verifHooks{}
	// scenario 0: any base path; 1 (base "/"): service b is registered on the Server
	// after it has served its first request; 2 (base "/"): the name is used through
	// the streaming entry point (NewStream, no message sent)
	scenario := zv.Choose("scenario", 3)
	base := "/"
	if scenario == 0 {
		base = "/" + zv.String("base", zv.Param("basecap", 2))
	}
	var name string
	if scenario == 0 {
		name = zv.String("method", zv.Param("namecap", 4))
	} else {
		// (the name space is explored in scenario 0; here one name per kind)
		name = []string{"/a/U", "/b/U", "b/U", "/a/S", "/b/S", "/b/R", "/b/C", "/b/X", "/c/U"}[zv.Choose("method-name", 9)]
	}
	viaHelper := scenario != 1 && zv.Choose("via-HandleServices", 2) == 1

	var handler http.Handler
	if !viaHelper {
		srv := NewServer(WithBasePath(base))
		srv.RegisterService(zzfix.Desc("a"), &zzfix.Srv{Name: "a", Hooks: hooks})
		if scenario == 1 {
			warm := &verifTransport{handler: srv, remoteAddr: "1.2.3.4:5", inline: true}
			wch := &Channel{Transport: warm, BaseURL: verifURL("http", "h", base)}
			werr := wch.Invoke(context.Background(), "/a/U", &verifMsg{}, &verifMsg{})
			zv.Assert(werr == nil && len(hooks.Ran) == 1, "first-request-served")
			hooks.Ran = nil
		}
		srv.RegisterService(zzfix.Desc("b"), &zzfix.Srv{Name: "b", Hooks: hooks})
		handler = srv
	} else {
		reg := grpchan.HandlerMap{}
		reg.RegisterService(zzfix.Desc("a"), &zzfix.Srv{Name: "a", Hooks: hooks})
		reg.RegisterService(zzfix.Desc("b"), &zzfix.Srv{Name: "b", Hooks: hooks})
		mux := &verifMux{}
		HandleServices(mux.HandleFunc, base, reg, nil, nil)
		handler = mux
	}
	tr := &verifTransport{handler: handler, remoteAddr: "1.2.3.4:5", inline: true}
	ch := &Channel{Transport: tr, BaseURL: verifURL("http", "h", base)}

	if scenario == 2 {
		verifC12StreamEntry(hooks, handler, base, name)
		return
	}
	err := ch.Invoke(context.Background(), name, &verifMsg{}, &verifMsg{})

	// reference: the request path the client must produce for this name, compared
	// with the paths the registered methods are served under (names with "." / ".."
	// segments or doubled slashes are resolved against the base path, so they are
	// compared after joining, not before)
	cleaned := path.Join(base, name)
	under := func(tag string) string { return path.Join(base, tag) }
	zv.Assert(len(hooks.Ran) <= 1, "at-most-one-handler-runs")
	if len(hooks.Ran) == 1 {
		zv.Reach("handler-ran")
		tag := hooks.Ran[0]
		zv.Observe("ran", base, name, tag)
		zv.Assert(cleaned == under(tag), "handler-ran-only-for-its-own-name")
		zv.Assert(tag == "a/U" || tag == "b/U", "unary-entry-runs-unary-handler")
		zv.Assert(err == nil, "matched-call-succeeds")
		return
	}
	zv.Reach("no-handler")
	zv.Observe("rejected", base, name)
	zv.Assert(cleaned != under("a/U") && cleaned != under("b/U"), "registered-name-runs-its-handler")
	zv.Assert(err != nil, "unknown-name-fails")
	if err != nil {
		st, ok := status.FromError(err)
		zv.Assert(ok, "unknown-name-gives-status-error")
		if ok {
			isStreamPath := cleaned == under("a/S") || cleaned == under("a/C") || cleaned == under("a/R") || cleaned == under("b/S") || cleaned == under("b/C") || cleaned == under("b/R")
			if isStreamPath {
				// a streaming method called through the unary entry point is refused
				// by content type, not by path
				zv.Reach("stream-path-via-unary")
				zv.Assert(st.Code() != codes.OK, "kind-mismatch-fails")
			} else {
				zv.Assert(st.Code() == codes.NotFound, "unknown-name-gives-NotFound")
			}
		}
	}
}

// verifC12StreamEntry: the name goes through NewStream (bidi descriptor), the
// client sends nothing and half-closes. A handler runs iff the name is that of a
// registered streaming method, and then it is that method's handler; in
// particular a unary method's handler never runs for a streaming request.
func verifC12StreamEntry(hooks *verifHooks, handler http.Handler, base, name string) {
	st := &verifStreamTransport{handler: handler, remoteAddr: "1.2.3.4:5"}
	ch := &Channel{Transport: st, BaseURL: verifURL("http", "h", base)}
	ctx, cancel := context.WithCancel(context.Background())
	defer cancel()
	cs, err := ch.NewStream(ctx, zzfix.StreamDescOf("S"), name)
	if err == nil {
		cs.CloseSend()
		err = cs.RecvMsg(&verifMsg{})
		if err == io.EOF {
			err = nil
		}
	}
	cleaned := path.Join(base, name)
	under := func(tag string) string { return path.Join(base, tag) }
	zv.Assert(len(hooks.Ran) <= 1, "at-most-one-handler-runs")
	if len(hooks.Ran) == 1 {
		zv.Reach("stream-handler-ran")
		tag := hooks.Ran[0]
		zv.Assert(cleaned == under(tag), "handler-ran-only-for-its-own-name")
		zv.Assert(tag != "a/U" && tag != "b/U", "stream-entry-never-runs-a-unary-handler")
		return
	}
	zv.Reach("stream-entry-no-handler")
	for _, tag := range []string{"a/S", "a/C", "a/R", "b/S", "b/C", "b/R"} {
		zv.Assert(cleaned != under(tag), "registered-name-runs-its-handler")
	}
	zv.Assert(err != nil, "unknown-name-fails")
	if err != nil {
		_, ok := status.FromError(err)
		zv.Assert(ok, "unknown-name-gives-status-error")
	}
}
