//go:build verif

package httpgrpc

import (
	"context"
	"net/http"
	"strconv"
	"strings"
	"unicode/utf8"

	"google.golang.org/grpc"
	"google.golang.org/grpc/codes"
	"google.golang.org/grpc/metadata"
	"google.golang.org/grpc/status"
	"google.golang.org/protobuf/proto"

	"github.com/fullstorydev/grpchan/internal/zzfix"
	zv "github.com/fullstorydev/grpchan/internal/zzverif"
)

var verifContentTypes = []string{
	"application/x-protobuf",
	"application/x-protobuf; charset=utf-8",
	"APPLICATION/X-Protobuf",
	"application/json",
	"application/json;charset=UTF-8",
	"application/x-httpgrpc-proto+v1",
	"application/x-httpgrpc-proto+v1; x=y",
	"application/x-httpgrpc-proto+v2",
	"application/x-protobuf2",
	"text/plain",
	"",
	"application/x-protobuf; charset",
}

// verifContentType picks the request's Content-Type: one of a list of concrete
// values that go through the real mime parser, or a symbolic parameter-less value
// of one of the three lengths at which a supported type can occur (or a short one).
func verifContentType() string {
	k := zv.Choose("content-type-kind", len(verifContentTypes)+4)
	if k < len(verifContentTypes) {
		return verifContentTypes[k]
	}
	n := []int{16, 22, 31, 3}[k-len(verifContentTypes)]
	s := zv.StringN("content-type", n)
	// parameter-less, printable: what the symbolic branch of the parser model covers
	for i := 0; i < len(s); i++ {
		c := s[i]
		zv.Assume(zv.Or(zv.Or(zv.And(c >= 'a', c <= 'z'), zv.And(c >= 'A', c <= 'Z')), zv.Or(zv.Or(zv.And(c >= '0', c <= '9'), c == '/'), zv.Or(zv.Or(c == '+', c == '-'), c == '.'))))
	}
	return s
}

// Verif_C11_Gate: method string, content type, a -bin header, a GRPC-Timeout
// header and the body are symbolic, for a unary and a streaming method. The
// handler runs at most once, and only for POST + supported media type + decodable
// headers; otherwise 405 / 415 / 400 without running application code; the reply
// is well-formed (a streaming reply ends with exactly one trailer frame).
func Verif_C11_Gate() {
	streaming := zv.Bool("streaming-method")
	// The gates are sequential and independent, so one input dimension is symbolic
	// at a time and the others are held at valid values (sum instead of product of
	// the input spaces); "all" varies them together at a smaller bound.
	focus := []string{"method", "content-type", "headers", "body", "all"}[zv.Choose("focus", 5)]
	method := "POST"
	ct := UnaryRpcContentType_V1
	if streaming {
		ct = StreamRpcContentType_V1
	}
	binHdr, hasBin, timeout := "", false, ""
	binHdr2, hasBin2 := "", false
	var body []byte
	handlerFails := false
	nResp := 1
	small := focus == "all"
	if focus == "method" || small {
		n := zv.Param("methodcap", 4)
		if small {
			n = 4
		}
		method = zv.String("http-method", n)
	}
	if focus == "content-type" || small {
		ct = verifContentType()
	}
	if focus == "headers" || small {
		hasBin = zv.Bool("has-bin-header")
		if small {
			if hasBin {
				binHdr = zv.StringN("bin-header", 4)
			}
		} else {
			if hasBin {
				binHdr = zv.String("bin-header", zv.Param("bincap", 4))
				if zv.Bool("second-bin-value") {
					binHdr2 = zv.String("bin-header-2", zv.Param("bincap", 4))
					hasBin2 = true
				}
			}
			timeout = zv.String("grpc-timeout", zv.Param("timeoutcap", 2))
		}
	}
	if focus == "body" || small {
		n := zv.Param("bodycap", 4)
		if small {
			n = 1
		}
		body = zv.Bytes("body", n)
		handlerFails = zv.Bool("handler-fails")
		if !small {
			nResp = zv.Choose("responses", 3)
		}
	}
	hooks := &verifHooks{}
	invocations := 0
	hooks.Unary = func(tag string, ctx context.Context, req *verifMsg) (*verifMsg, error) {
		invocations++
		if handlerFails {
			return nil, status.Error(codes.NotFound, "nope")
		}
		return &verifMsg{Payload: req.Payload}, nil
	}
	hooks.Stream = func(tag string, ss grpc.ServerStream) error {
		invocations++
		for i := 0; i < nResp; i++ {
			ss.SendMsg(&verifMsg{Count: int32(i + 1)})
		}
		ss.SetTrailer(metadata.Pairs("t", "v"))
		if handlerFails {
			return status.Error(codes.NotFound, "nope")
		}
		return nil
	}
	srv := &zzfix.Srv{Name: "a", Hooks: hooks}
	d := zzfix.Desc("a")
	var h http.HandlerFunc
	if streaming {
		h = HandleStream(srv, "a", &d.Streams[0], nil)
	} else {
		h = HandleMethod(srv, "a", &d.Methods[0], nil)
	}
	hdr := http.Header{}
	hdr.Set("Content-Type", ct)
	if hasBin {
		hdr.Set("K-Bin", binHdr)
	}
	if hasBin2 {
		hdr.Add("K-Bin", binHdr2) // a repeated header: every value must decode
	}
	if timeout != "" {
		hdr.Set("GRPC-Timeout", timeout)
	}
	req := (&http.Request{Method: method, URL: verifURL("http", "h", "/a/x"), Header: hdr, Body: &verifBody{data: body}, RemoteAddr: "1.1.1.1:1"}).WithContext(context.Background())
	rec := newVerifRecorder()
	h(rec, req) // a panic here is a violation
	if !rec.wroteHeader {
		rec.WriteHeader(200)
	}

	// reference gate
	mt := strings.ToLower(ct)
	if i := strings.IndexByte(mt, ';'); i >= 0 {
		mt = strings.TrimSpace(mt[:i])
	}
	supported := mt == UnaryRpcContentType_V1 || mt == ApplicationJson
	if streaming {
		supported = mt == StreamRpcContentType_V1
	}
	binOK := true
	if hasBin {
		_, derr := asMetadata(http.Header{"K-Bin": {binHdr}})
		binOK = derr == nil
	}
	if hasBin2 {
		_, derr2 := asMetadata(http.Header{"K-Bin": {binHdr2}})
		binOK = binOK && derr2 == nil
	}
	zv.Observe("gate", streaming, method, ct, rec.code, invocations)
	zv.Assert(len(hooks.Ran) <= 1 && invocations <= 1, "handler-runs-at-most-once")
	switch {
	case method != "POST":
		zv.Reach("not-post")
		zv.Assert(rec.code == http.StatusMethodNotAllowed, "non-POST-answered-405")
		zv.Assert(invocations == 0, "no-handler-for-non-POST")
		zv.Assert(rec.sent.Get("Allow") == "POST", "405-carries-Allow-header")
	case !supported:
		zv.Reach("unsupported-media-type")
		zv.Assert(rec.code == http.StatusUnsupportedMediaType, "unsupported-media-type-answered-415")
		zv.Assert(invocations == 0, "no-handler-for-unsupported-media-type")
	case !binOK:
		zv.Reach("bad-header")
		zv.Assert(rec.code == http.StatusBadRequest, "undecodable-header-answered-400")
		zv.Assert(invocations == 0, "no-handler-for-undecodable-header")
	default:
		zv.Reach("admitted")
		if mt == ApplicationJson {
			return // JSON bodies are protojson's (not modelled); only the gate is checked
		}
		if streaming {
			zv.Assert(invocations == 1, "valid-request-runs-handler")
			verifCheckStreamReply(rec, nResp, handlerFails)
		} else {
			var in verifMsg
			decodable := proto.Unmarshal(body, &in) == nil
			if !decodable {
				zv.Reach("undecodable-body")
				zv.Assert(invocations == 0, "undecodable-request-not-delivered")
				zv.Assert(verifStatusHeaderCode(rec) == int(codes.InvalidArgument), "undecodable-unary-request-is-InvalidArgument")
				zv.Assert(rec.code >= 400, "undecodable-unary-request-is-an-http-error")
			} else {
				zv.Assert(invocations == 1, "valid-request-runs-handler")
				if handlerFails {
					zv.Assert(verifStatusHeaderCode(rec) == int(codes.NotFound) && rec.code == http.StatusNotFound, "handler-status-rendered")
				} else {
					zv.Assert(rec.code == http.StatusOK, "success-answered-200")
					var out verifMsg
					zv.Assert(proto.Unmarshal(rec.body, &out) == nil, "response-body-decodes")
					zv.Assert(rec.sent.Get("Content-Length") == strconv.Itoa(len(rec.body)), "content-length-matches-body")
				}
			}
		}
	}
}

func verifStatusHeaderCode(rec *verifRecorder) int {
	v := rec.sent.Get("X-GRPC-Status")
	i := strings.IndexByte(v, ':')
	if i < 0 {
		return -1
	}
	n, err := strconv.Atoi(v[:i])
	if err != nil {
		return -1
	}
	return n
}

// verifCheckStreamReply: the recorded streaming reply is nResp data frames
// followed by exactly one trailer frame and nothing else.
func verifCheckStreamReply(rec *verifRecorder, nResp int, failed bool) {
	zv.Assert(rec.code == http.StatusOK, "stream-reply-is-200")
	data, trailer, hasTrailer := verifFrames(rec.body)
	zv.Assert(len(data) == nResp, "stream-reply-has-the-data-frames")
	zv.Assert(hasTrailer, "stream-reply-ends-with-a-trailer-frame")
	if !hasTrailer {
		return
	}
	consumed := 0
	for _, d := range data {
		consumed += 4 + len(d)
	}
	consumed += 4 + len(trailer)
	zv.Assert(consumed == len(rec.body), "nothing-follows-the-trailer-frame")
	var tr HttpTrailer
	zv.Assert(proto.Unmarshal(trailer, &tr) == nil, "trailer-frame-decodes")
	want := int32(codes.OK)
	if failed {
		want = int32(codes.NotFound)
	}
	zv.Assert(tr.Code == want, "trailer-carries-final-status")
	tv := tr.Metadata["t"]
	zv.Assert(tv != nil && len(tv.Values) == 1 && tv.Values[0] == "v", "trailer-carries-metadata")
}

var _ = utf8.ValidString
