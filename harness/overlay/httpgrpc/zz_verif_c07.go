//go:build verif

package httpgrpc

import (
	"bytes"
	"context"
	"io"
	"io/ioutil"
	"net/http"

	"google.golang.org/grpc"
	"google.golang.org/grpc/codes"
	"google.golang.org/grpc/status"
	"google.golang.org/protobuf/proto"

	"github.com/fullstorydev/grpchan/internal/zzfix"
	zv "github.com/fullstorydev/grpchan/internal/zzverif"
)

// verifBody is a response/request body over a byte slice that ends cleanly (EOF)
// or abruptly (an error) after the last byte.
type verifBody struct {
	data   []byte
	off    int
	endErr error
	closed bool
}

func (b *verifBody) Read(p []byte) (int, error) {
	if b.off >= len(b.data) {
		if b.endErr != nil {
			return 0, b.endErr
		}
		return 0, io.EOF
	}
	n := copy(p, b.data[b.off:])
	b.off += n
	return n, nil
}

func (b *verifBody) Close() error { b.closed = true; return nil }

// verifCanned answers every request with a prepared response.
type verifCanned struct {
	status int
	header http.Header
	body   io.ReadCloser
}

func (t *verifCanned) RoundTrip(req *http.Request) (*http.Response, error) {
	// the request body is drained like a server would
	if req.Body != nil {
		go func() { io.Copy(ioutil.Discard, req.Body) }()
	}
	h := t.header
	if h == nil {
		h = http.Header{}
	}
	return &http.Response{StatusCode: t.status, Status: "200 OK", Header: h, Body: t.body, Request: req}, nil
}

// verifFrames is the reference decoder: it splits body into size-prefixed frames.
// It returns the payloads of the complete data frames that precede the first
// trailer frame or malformation, and whether a complete trailer frame follows.
func verifFrames(body []byte) (data [][]byte, trailer []byte, hasTrailer bool) {
	off := 0
	for {
		if off+4 > len(body) {
			return data, nil, false
		}
		sz := int32(uint32(body[off])<<24 | uint32(body[off+1])<<16 | uint32(body[off+2])<<8 | uint32(body[off+3]))
		off += 4
		if sz < 0 {
			n := -int64(sz)
			if n > int64(len(body)-off) {
				return data, nil, false
			}
			return data, body[off : off+int(n)], true
		}
		if int64(sz) > int64(len(body)-off) {
			return data, nil, false
		}
		data = append(data, body[off:off+int(sz)])
		off += int(sz)
	}
}

// Verif_C07_ClientDecode: the response body of a server-streaming call is an
// arbitrary byte string (every length up to the cap, every byte, so every length
// prefix incl. 0, negative, 2^31-1), ending cleanly or abruptly.
func Verif_C07_ClientDecode() {
	zv.AllocLimit(maxMessageSize)
	body := zv.Bytes("body", zv.Param("bodycap", 8))
	abrupt := zv.Bool("abrupt-end")
	rb := &verifBody{data: body}
	if abrupt {
		rb.endErr = io.ErrUnexpectedEOF
	}
	ch := &Channel{Transport: &verifCanned{status: 200, body: rb}, BaseURL: verifURL("http", "h", "/")}
	ctx, cancel := context.WithCancel(context.Background())
	defer cancel()
	cs, err := ch.NewStream(ctx, zzfix.StreamDescOf("R"), "/a/R")
	zv.Assert(err == nil, "stream-created")
	if err != nil {
		return
	}
	cs.CloseSend()
	wantData, trailerBytes, hasTrailer := verifFrames(body)
	var got []*verifMsg
	var final error
	for i := 0; ; i++ {
		m := &verifMsg{}
		e := cs.RecvMsg(m)
		if e != nil {
			final = e
			break
		}
		got = append(got, m)
		if i > len(body)+2 {
			zv.Fail("receive-loop-terminates")
			return
		}
	}
	zv.Reach("stream-ended")
	zv.Observe("outcome", len(got), len(wantData), hasTrailer, final == io.EOF)
	// no fabrication: message i is the decoding of frame i
	zv.Assert(len(got) <= len(wantData), "no-message-beyond-the-frames-present")
	for i := range got {
		if i >= len(wantData) {
			break
		}
		ref := &verifMsg{}
		rerr := proto.Unmarshal(wantData[i], ref)
		zv.Assert(rerr == nil, "delivered-message-came-from-a-decodable-frame")
		if rerr == nil {
			zv.Assert(bytes.Equal(got[i].Payload, ref.Payload) && got[i].Count == ref.Count && got[i].Code == ref.Code, "delivered-message-equals-its-frame")
		}
	}
	// success needs a complete, decodable trailer with code OK and all frames delivered
	if final == io.EOF {
		zv.Reach("reported-success")
		zv.Assert(hasTrailer, "success-requires-complete-trailer-frame")
		if hasTrailer {
			var tr HttpTrailer
			terr := proto.Unmarshal(trailerBytes, &tr)
			zv.Assert(terr == nil && tr.Code == int32(codes.OK), "success-requires-OK-trailer")
			zv.Assert(len(got) == len(wantData), "success-requires-all-messages-delivered")
		}
	} else {
		zv.Reach("reported-failure")
		_, isStatus := status.FromError(final)
		zv.Observe("failure-is-status", isStatus)
	}
	zv.Assert(final != nil, "stream-reports-an-outcome")
}

// Verif_C07_Truncation: a well-formed response (k data frames with symbolic
// payloads, then the trailer) cut at every byte offset before its end must be
// reported as a failed call, and what was delivered before is an intact prefix.
func Verif_C07_Truncation() {
	k := zv.Choose("messages", zv.Param("maxmsgs", 1)+1)
	var full bytes.Buffer
	var payloads [][]byte
	codec := clientCodec()
	for i := 0; i < k; i++ {
		p := zv.Bytes(fmtName("payload", i), zv.Param("payloadcap", 1))
		payloads = append(payloads, p)
		if err := writeProtoMessage(&full, codec, &verifMsg{Payload: p}, false); err != nil {
			zv.Fail("encode-data-frame")
			return
		}
	}
	tr := HttpTrailer{Code: int32(codes.OK), Message: "OK"}
	if err := writeProtoMessage(&full, codec, &tr, true); err != nil {
		zv.Fail("encode-trailer-frame")
		return
	}
	enc := full.Bytes()
	cut := zv.Choose("cut-offset", len(enc)+1) // len(enc) = not cut
	abrupt := zv.Bool("abrupt-end")
	rb := &verifBody{data: enc[:cut]}
	if abrupt {
		rb.endErr = io.ErrUnexpectedEOF
	}
	ch := &Channel{Transport: &verifCanned{status: 200, body: rb}, BaseURL: verifURL("http", "h", "/")}
	ctx, cancel := context.WithCancel(context.Background())
	defer cancel()
	cs, err := ch.NewStream(ctx, zzfix.StreamDescOf("R"), "/a/R")
	if err != nil {
		zv.Fail("stream-created")
		return
	}
	cs.CloseSend()
	n := 0
	var final error
	for {
		m := &verifMsg{}
		e := cs.RecvMsg(m)
		if e != nil {
			final = e
			break
		}
		zv.Assert(n < k, "no-message-beyond-those-sent")
		if n < k {
			zv.Assert(bytes.Equal(m.Payload, payloads[n]), "delivered-prefix-intact")
		}
		n++
		if n > k+1 {
			return
		}
	}
	zv.Observe("truncated", k, cut, len(enc), n, final == io.EOF)
	if cut == len(enc) && !abrupt {
		zv.Reach("complete-response")
		zv.Assert(final == io.EOF && n == k, "complete-response-succeeds")
		return
	}
	if cut < len(enc) {
		zv.Reach("cut-response")
		zv.Assert(final != nil && final != io.EOF, "truncated-response-is-a-failed-call")
	}
}

func fmtName(s string, i int) string { return s + "#" + string(rune('0'+i)) }

func clientCodec() grpcCodec { return newClientStream(context.Background(), func() {}, nil, true, nil, nil).codec }

type grpcCodec = interface {
	Marshal(v interface{}) ([]byte, error)
	Unmarshal(data []byte, v interface{}) error
	Name() string
}

// Verif_C07_ServerDecode: the request body of a streaming method is an arbitrary
// byte string; the handler receives until an error.
func Verif_C07_ServerDecode() {
	zv.AllocLimit(maxMessageSize)
	body := zv.Bytes("body", zv.Param("bodycap", 8))
	abrupt := zv.Bool("abrupt-end")
	singleRequest := zv.Bool("single-request-method")
	hooks := &verifHooks{}
	var got []*verifMsg
	var final error
	hooks.Stream = func(tag string, ss grpc.ServerStream) error {
		for i := 0; i <= len(body)+2; i++ {
			m := &verifMsg{}
			if e := ss.RecvMsg(m); e != nil {
				final = e
				return nil
			}
			got = append(got, m)
		}
		zv.Fail("receive-loop-terminates")
		return nil
	}
	mtd := "S"
	if singleRequest {
		mtd = "R"
	}
	h := HandleStream(&zzfix.Srv{Name: "a", Hooks: hooks}, "a", &zzfix.Desc("a").Streams[map[string]int{"S": 0, "R": 2}[mtd]], nil)
	rb := &verifBody{data: body}
	if abrupt {
		rb.endErr = io.ErrUnexpectedEOF
	}
	req := &http.Request{Method: "POST", URL: verifURL("http", "h", "/a/"+mtd), Header: http.Header{"Content-Type": {StreamRpcContentType_V1}}, Body: rb}
	rec := newVerifRecorder()
	h(rec, req.WithContext(context.Background()))
	zv.Assert(len(hooks.Ran) == 1, "handler-ran")
	wantData, _, _ := verifFrames(body)
	zv.Reach("server-decoded")
	zv.Observe("server", len(got), len(wantData), final == io.EOF)
	zv.Assert(len(got) <= len(wantData), "no-message-beyond-the-frames-present")
	for i := range got {
		if i >= len(wantData) {
			break
		}
		ref := &verifMsg{}
		rerr := proto.Unmarshal(wantData[i], ref)
		zv.Assert(rerr == nil, "delivered-message-came-from-a-decodable-frame")
		if rerr == nil {
			zv.Assert(bytes.Equal(got[i].Payload, ref.Payload) && got[i].Count == ref.Count, "delivered-message-equals-its-frame")
		}
	}
	zv.Assert(final != nil, "request-stream-reports-an-outcome")
	if final == io.EOF && !singleRequest {
		// clean end of the request stream is only legitimate at a frame boundary
		// of a cleanly ended body with every frame delivered
		consumed := 0
		for _, d := range wantData {
			consumed += 4 + len(d)
		}
		zv.Assert(!abrupt && consumed == len(body) && len(got) == len(wantData), "clean-end-only-at-frame-boundary")
	}
}
