//go:build verif

package httpgrpc

import (
	"context"
	"io"

	"google.golang.org/grpc"
	"google.golang.org/grpc/codes"
	"google.golang.org/grpc/metadata"
	"google.golang.org/grpc/status"

	"github.com/fullstorydev/grpchan/internal/zzfix"
	zv "github.com/fullstorydev/grpchan/internal/zzverif"
)

// Verif_C08_HTTPStream: as the in-process harness, over HTTP.
func Verif_C08_HTTPStream() { verifC08HTTPStream(false) }

// Verif_C08_HTTPStreamCancel: the same with a caller's context that may be
// cancelled at any scheduling point (its own harness so that its schedule bound
// can be set separately).
func Verif_C08_HTTPStreamCancel() { verifC08HTTPStream(true) }

func verifC08HTTPStream(mayCancel bool) {
	k := zv.Choose("responses", 4)
	fails := zv.Bool("handler-fails")
	withMeta := zv.Bool("headers-and-trailers")
	headerFirst := zv.Bool("client-asks-for-headers-first")
	// the caller's context may end at any moment (environment event): whenever the
	// call is then still reported as a success, it must be a success by the rule
	// ... and the handler may still be busy (here: waiting for that very event)
	// when it ends, so that the end of the stream has not been seen yet
	lingers := mayCancel && zv.Bool("handler-lingers-until-the-context-ends")
	// responses that are all-default messages (zero bytes on the wire) count like
	// any other: 0 = none is empty, 1 = every response after the first, 2 = all
	empties := 0
	if !mayCancel {
		empties = zv.Choose("empty-responses", 3)
	}
	firstCount := int32(10)
	if empties == 2 {
		firstCount = 0
	}
	hooks := &verifHooks{}
	hooks.Stream = func(tag string, ss grpc.ServerStream) error {
		for {
			if err := ss.RecvMsg(&verifMsg{}); err != nil {
				break
			}
		}
		if withMeta {
			ss.SetHeader(metadata.Pairs("h", "v"))
			ss.SetTrailer(metadata.Pairs("t", "v"))
		}
		for i := 0; i < k; i++ {
			if empties == 2 || (empties == 1 && i >= 1) {
				ss.SendMsg(&verifMsg{})
				continue
			}
			ss.SendMsg(&verifMsg{Count: int32(10 + i)})
		}
		if lingers {
			<-ss.Context().Done()
		}
		if fails {
			return status.Error(codes.Aborted, "handler failed")
		}
		return nil
	}
	ch, _, _ := verifHTTP(hooks)
	var ctx context.Context
	var cancel context.CancelFunc
	if mayCancel {
		ctx, cancel = zv.EndableContext(false)
	} else {
		ctx, cancel = context.WithCancel(context.Background())
	}
	defer cancel()
	cs, err := ch.NewStream(ctx, zzfix.StreamDescOf("C"), "/a/C")
	if err != nil {
		zv.Fail("stream-created")
		return
	}
	cs.SendMsg(&verifMsg{Count: 1})
	cs.CloseSend()
	if headerFirst {
		cs.Header()
	}
	m := &verifMsg{Count: 99}
	first := cs.RecvMsg(m)
	zv.Observe("first", k, fails, first == nil)
	if first == nil {
		zv.Reach("success")
		zv.Assert(k == 1 && !fails, "success-only-for-exactly-one-response-and-nil-status")
		zv.Assert(m.Count == firstCount, "the-delivered-message-is-that-response")
		second := cs.RecvMsg(&verifMsg{})
		if !zv.Cancelled(ctx) {
			zv.Assert(second == io.EOF, "then-clean-end")
		}
	} else {
		zv.Reach("failure")
		if zv.Cancelled(ctx) {
			return // the cancellation is a legitimate reason to fail (C04's subject)
		}
		zv.Assert(!(k == 1 && !fails), "exactly-one-response-and-nil-status-succeeds")
		if fails && k <= 1 {
			zv.Assert(status.Code(first) == codes.Aborted, "handler-status-reported")
		} else if k >= 2 {
			zv.Assert(status.Code(first) != codes.OK && first != io.EOF, "more-than-one-response-is-an-error")
		}
	}
	zv.CheckLeaks()
}

// Verif_C08_HTTPSingleRequest: the client sends n = 0..2 request messages to a
// method that takes a single request (server-streaming): the handler's receive
// accepts exactly one and rejects a second.
func Verif_C08_HTTPSingleRequest() {
	n := zv.Choose("requests", 3)
	hooks := &verifHooks{}
	var firstErr, secondErr error
	received := 0
	hooks.Stream = func(tag string, ss grpc.ServerStream) error {
		m := &verifMsg{}
		firstErr = ss.RecvMsg(m)
		if firstErr == nil {
			received++
			secondErr = ss.RecvMsg(&verifMsg{})
			if secondErr == nil {
				received++
			}
		}
		if firstErr != nil {
			return firstErr
		}
		return nil
	}
	ch, _, _ := verifHTTP(hooks)
	ctx, cancel := context.WithCancel(context.Background())
	defer cancel()
	cs, err := ch.NewStream(ctx, zzfix.StreamDescOf("R"), "/a/R")
	if err != nil {
		zv.Fail("stream-created")
		return
	}
	for i := 0; i < n; i++ {
		cs.SendMsg(&verifMsg{Count: int32(i + 1)})
	}
	cs.CloseSend()
	final := cs.RecvMsg(&verifMsg{})
	zv.Observe("single-request", n, received, final == io.EOF)
	zv.Reach("done")
	zv.Assert(received <= 1, "handler-never-gets-a-second-request")
	switch n {
	case 0:
		zv.Assert(firstErr != nil, "missing-request-is-an-error-for-the-handler")
	case 1:
		zv.Assert(firstErr == nil && received == 1, "single-request-accepted")
		zv.Assert(secondErr == io.EOF, "second-receive-reports-end-of-requests")
		zv.Assert(final == io.EOF, "call-succeeds")
	case 2:
		zv.Assert(firstErr != nil, "second-request-message-is-rejected")
		zv.Assert(final != nil && final != io.EOF, "call-with-two-requests-fails")
	}
}
