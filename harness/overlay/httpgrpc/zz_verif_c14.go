//go:build verif

package httpgrpc

import (
	"context"
	"fmt"
	"net/http"

	"google.golang.org/grpc/codes"
	"google.golang.org/grpc/status"

	"github.com/fullstorydev/grpchan/internal/zzfix"

	zv "github.com/fullstorydev/grpchan/internal/zzverif"
)

// The expected table (verifDocTable) is generated at check time from the doc
// comment of DefaultErrorRenderer in /repo's current httpgrpc/server.go, see
// zz_verif_c14_table.go (written into the scratch copy by gosym).

func verifDocLookup(code codes.Code) (int, bool) {
	for _, e := range verifDocTable {
		if e.code == code {
			return e.status, true
		}
	}
	return 0, false
}

// Verif_C14_Forward: for every code value (all 2^32), the HTTP status chosen for
// it equals the documented table, is 500 for codes outside the table, and is an
// error status (>= 400) for every non-OK code.
func Verif_C14_Forward() {
	code := codes.Code(zv.Uint32("code"))
	got := httpStatusFromCode(code)
	zv.Observe("status", uint32(code), got)
	want, listed := verifDocLookup(code)
	if listed {
		zv.Reach("listed-code")
		zv.Assert(got == want, "status-matches-doc-table")
	} else if code != codes.OK {
		zv.Reach("unlisted-code")
		zv.Assert(got == http.StatusInternalServerError, "unlisted-code-gives-500")
	}
	if code != codes.OK {
		zv.Assert(got >= 400 && got <= 599, "non-ok-code-gives-error-status")
	}
}

// Verif_C14_Fallback: for every HTTP status (all int values) that arrives without
// the gRPC status header, the derived code is OK exactly for 2xx.
func Verif_C14_Fallback() {
	st := zv.Int("http-status")
	c := codeFromHttpStatus(st)
	zv.Observe("code", st, uint32(c))
	is2xx := st >= 200 && st < 300
	if is2xx {
		zv.Reach("2xx")
		zv.Assert(c == codes.OK, "2xx-gives-OK")
	} else {
		zv.Reach("non-2xx")
		zv.Assert(c != codes.OK, "non-2xx-gives-non-OK")
	}
	// and through the client's response classifier, header absent
	reply := &http.Response{StatusCode: st, Status: "status text", Header: http.Header{}}
	stat := statFromResponse(reply)
	if is2xx {
		zv.Assert(stat == nil, "no-header-2xx-is-success")
	} else {
		zv.Assert(stat != nil, "no-header-non-2xx-is-error")
		if stat != nil {
			zv.Assert(stat.Code() == c, "no-header-code-is-fallback-code")
			zv.Assert(stat.Code() != codes.OK, "no-header-non-2xx-code-non-OK")
		}
	}
}

// Verif_C14_HeaderRoundTrip: the code written into X-GRPC-Status by the server's
// formatting ("%d:%s" of the int32 code) is recovered exactly by the client for
// every 32-bit value, whatever HTTP status accompanies it (header precedence).
func Verif_C14_HeaderRoundTrip() {
	code := zv.Int32("code")
	httpStatus := zv.Int("http-status")
	msg := zv.String("msg", zv.Param("msgcap", 2))
	hv := fmt.Sprintf("%d:%s", code, msg)
	h := http.Header{}
	h.Set("X-GRPC-Status", hv)
	reply := &http.Response{StatusCode: httpStatus, Status: "ignored", Header: h}
	stat := statFromResponse(reply)
	if code == int32(codes.OK) {
		// the server never sends OK here (it rewrites it to Internal); the client
		// treats an explicit 0 as success
		zv.Reach("explicit-ok")
		zv.Assert(stat == nil, "explicit-zero-is-success")
		return
	}
	zv.Reach("non-ok")
	zv.Assert(stat != nil, "header-code-gives-error")
	if stat != nil {
		zv.Observe("roundtrip", code, uint32(stat.Code()), stat.Message())
		zv.Assert(uint32(stat.Code()) == uint32(code), "header-code-recovered-exactly")
		zv.Assert(stat.Message() == msg, "header-message-recovered")
	}
}

type verifOKStatusErr struct{}

func (verifOKStatusErr) Error() string              { return "failed, but says OK" }
func (verifOKStatusErr) GRPCStatus() *status.Status { return status.New(codes.OK, "m") }

// Verif_C14_Renderer: a unary handler returns an arbitrary non-OK code (all 2^32
// values) through the real handleMethod and DefaultErrorRenderer; the HTTP request
// context is cancelled or not, and independently the RPC context derived from a
// GRPC-Timeout header has expired or not. The HTTP status is 499 exactly when the
// code is Canceled/DeadlineExceeded AND the request itself was cancelled,
// otherwise the documented table entry; the caller recovers the exact code.
func Verif_C14_Renderer() {
	code := codes.Code(zv.Uint32("code"))
	zv.Assume(code != codes.OK)
	// a failure whose own status says OK (an error type with a GRPCStatus method
	// can do that; status.Error cannot): the handler did fail, so what is rendered
	// and what the caller recovers is Internal, never success
	okErr := zv.Bool("error-carries-an-OK-status")
	if okErr {
		zv.Assume(code == codes.Internal)
	}
	reqCancelled := zv.Bool("request-context-cancelled")
	rpcExpired := zv.Bool("rpc-timeout-expired")
	hooks := &verifHooks{}
	rctx, rcancel := context.WithCancel(context.Background())
	defer rcancel()
	hooks.Unary = func(tag string, ctx context.Context, req *verifMsg) (*verifMsg, error) {
		if rpcExpired {
			<-ctx.Done() // the deadline from GRPC-Timeout passes while the handler runs
		}
		if reqCancelled {
			rcancel() // the client goes away before the handler returns
		}
		if okErr {
			return nil, verifOKStatusErr{}
		}
		return nil, status.Error(code, "m")
	}
	d := zzfix.Desc("a")
	h := HandleMethod(&zzfix.Srv{Name: "a", Hooks: hooks}, "a", &d.Methods[0], nil)
	hdr := http.Header{"Content-Type": {UnaryRpcContentType_V1}}
	if rpcExpired {
		hdr.Set("GRPC-Timeout", "5m")
	}
	req := (&http.Request{Method: "POST", URL: verifURL("http", "h", "/a/U"), Header: hdr, Body: &verifBody{}}).WithContext(rctx)
	rec := newVerifRecorder()
	h(rec, req)
	if !rec.wroteHeader {
		rec.WriteHeader(200)
	}
	reqDone := zv.Cancelled(rctx)
	want, listed := verifDocLookup(code)
	if !listed {
		want = http.StatusInternalServerError
	}
	if (code == codes.Canceled || code == codes.DeadlineExceeded) && reqDone {
		want = 499
	}
	zv.Reach("rendered")
	zv.Observe("rendered", uint32(code), reqDone, rpcExpired, rec.code)
	zv.Assert(rec.code == want, "http-status-follows-documented-table-and-499-rule")
	zv.Assert(rec.code >= 400, "non-ok-code-gives-error-status")
	// and the caller recovers the exact code
	reply := &http.Response{StatusCode: rec.code, Status: "x", Header: rec.sent}
	stat := statFromResponse(reply)
	zv.Assert(stat != nil, "caller-sees-an-error")
	if stat != nil {
		zv.Assert(stat.Code() == code, "caller-recovers-exact-code")
	}
}
