//go:build verif

package httpgrpc

import (
	"context"
	"math"
	"net/http"
	"time"

	zv "github.com/fullstorydev/grpchan/internal/zzverif"
)

// Verif_C09_ServerLong: the over-long values. Header = <L decimal digits><unit>
// with L from 10 to 18 (every digit symbolic, every unit): still "a non-negative
// value with a valid unit", so the handler gets value*unit, saturating. (Values of
// 19 and more digits can exceed what fits in 64 bits and are outside this harness.)
func Verif_C09_ServerLong() {
	lens := []int{10, 11, 12, 13, 14, 15, 16, 17, 18}
	L := lens[zv.Choose("digits", len(lens))]
	ds := zv.BytesN("value-digits", L)
	if len(ds) != L {
		return
	}
	var val int64
	for i := 0; i < L; i++ {
		zv.Assume(zv.And(ds[i] >= '0', ds[i] <= '9'))
		val = val*10 + int64(ds[i]-'0') // < 10^18: no overflow
	}
	uc := []byte{'H', 'M', 'S', 'm', 'u', 'n'}[zv.Choose("unit", 6)]
	unit, _ := verifUnit(uc)
	hv := string(ds) + string([]byte{uc})
	h := http.Header{"Grpc-Timeout": {hv}}
	ctx, cancel, err := contextFromHeaders(context.Background(), h)
	defer cancel()
	zv.Assert(err == nil, "timeout-header-never-rejects-request")
	d, has := zv.TimeoutOf(ctx)
	zv.Observe("parsed-long", hv, val, int64(unit))
	zv.Assert(has, "well-formed-timeout-gives-deadline")
	if !has {
		return
	}
	if val > math.MaxInt64/int64(unit) {
		zv.Reach("saturating-long")
		zv.Assert(zv.DurationIs(d, time.Duration(math.MaxInt64)), "huge-timeout-saturates")
	} else {
		zv.Reach("exact-long")
		zv.Assert(zv.DurationIs(d, time.Duration(val)*unit), "timeout-is-value-times-unit")
	}
}
