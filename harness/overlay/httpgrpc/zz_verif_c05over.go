//go:build verif

package httpgrpc

import (
	"context"
	"io"

	"google.golang.org/grpc"

	"github.com/fullstorydev/grpchan/internal/zzfix"
	zv "github.com/fullstorydev/grpchan/internal/zzverif"
)

// Verif_C05_HTTPOverDelivery: the handler of a single-response (client-streaming)
// method sends 2..4 responses. The caller receives once, is told of the failure
// and does nothing else with the stream (no cancel, no further call): the call has
// ended, so no goroutine of the library may remain (scheduler's leak verdict).
func Verif_C05_HTTPOverDelivery() {
	k := 2 + zv.Choose("responses", 3)
	hooks := &verifHooks{}
	hooks.Stream = func(tag string, ss grpc.ServerStream) error {
		for {
			if err := ss.RecvMsg(&verifMsg{}); err != nil {
				break
			}
		}
		for i := 0; i < k; i++ {
			ss.SendMsg(&verifMsg{Count: int32(10 + i)})
		}
		return nil
	}
	ch, _, st := verifHTTP(hooks)
	st.buffered = true // a connection's buffering: the server does not wait for the client to read
	ctx, cancel := context.WithCancel(context.Background())
	_ = cancel // deliberately not called: the caller owes the library nothing after the end
	cs, err := ch.NewStream(ctx, zzfix.StreamDescOf("C"), "/a/C")
	if err != nil {
		zv.Fail("stream-created")
		return
	}
	cs.SendMsg(&verifMsg{Count: 1})
	cs.CloseSend()
	first := cs.RecvMsg(&verifMsg{})
	zv.Assert(first != nil && first != io.EOF, "over-delivery-is-reported-as-a-failure")
	zv.Reach("over-delivered")
	zv.CheckLeaks()
}
