//go:build verif

package grpchan

import (
	"context"
	"fmt"

	"google.golang.org/grpc"

	zv "github.com/fullstorydev/grpchan/internal/zzverif"
)

type verifOtherIface interface{ verifOther() }
type verifBadImpl struct{}

type verifRegEntry struct {
	name string
	desc *grpc.ServiceDesc
	impl interface{}
}

// verifTryRegister registers and reports whether the call panicked.
func verifTryRegister(m HandlerMap, d *grpc.ServiceDesc, impl interface{}) (panicked bool) {
	defer func() {
		if r := recover(); r != nil {
			panicked = true
		}
	}()
	m.RegisterService(d, impl)
	return false
}

func verifMkDesc(name string, idx int) *grpc.ServiceDesc {
	d := &grpc.ServiceDesc{ServiceName: name, HandlerType: (*verifSvcIface)(nil), Metadata: fmt.Sprintf("meta-%s-%d", name, idx)}
	nU := zv.Choose(fmt.Sprintf("op%d-unary", idx), 3)
	nS := zv.Choose(fmt.Sprintf("op%d-streams", idx), 3)
	for i := 0; i < nU; i++ {
		d.Methods = append(d.Methods, grpc.MethodDesc{MethodName: fmt.Sprintf("U%d", i), Handler: func(srv interface{}, ctx context.Context, dec func(interface{}) error, interceptor grpc.UnaryServerInterceptor) (interface{}, error) {
			return nil, nil
		}})
	}
	for i := 0; i < nS; i++ {
		d.Streams = append(d.Streams, grpc.StreamDesc{StreamName: fmt.Sprintf("S%d", i),
			ClientStreams: zv.Bool(fmt.Sprintf("op%d-s%d-client", idx, i)), ServerStreams: zv.Bool(fmt.Sprintf("op%d-s%d-server", idx, i))})
	}
	return d
}

func verifFindRef(ref []verifRegEntry, name string) *verifRegEntry {
	for i := range ref {
		if ref[i].name == name {
			return &ref[i]
		}
	}
	return nil
}

// verifCheckAgainstRef compares the map with the reference association list.
func verifCheckAgainstRef(m HandlerMap, ref []verifRegEntry) {
	names := []string{"x", "y", "z"}
	for _, n := range names {
		d, h := m.QueryService(n)
		e := verifFindRef(ref, n)
		if e == nil {
			zv.Assert(d == nil && h == nil, "unregistered-name-yields-nothing")
		} else {
			zv.Assert(d == e.desc && h == e.impl, "lookup-returns-exactly-what-was-registered")
		}
	}
	// iteration visits every registration exactly once
	seen := map[string]int{}
	m.ForEach(func(d *grpc.ServiceDesc, svr interface{}) {
		seen[d.ServiceName]++
		e := verifFindRef(ref, d.ServiceName)
		zv.Assert(e != nil && e.desc == d && e.impl == svr, "iteration-yields-registered-pairs")
	})
	zv.Assert(len(seen) == len(ref), "iteration-visits-every-registration")
	for _, e := range ref {
		zv.Assert(seen[e.name] == 1, "iteration-visits-each-registration-once")
	}
	// service info = what grpc.Server.GetServiceInfo documents: unary methods (no
	// streaming flags) followed by streams with their flags, plus the metadata
	info := m.GetServiceInfo()
	zv.Assert(len(info) == len(ref), "service-info-has-one-entry-per-registration")
	for _, e := range ref {
		si, ok := info[e.name]
		zv.Assert(ok, "service-info-lists-registration")
		if !ok {
			continue
		}
		zv.Assert(si.Metadata == e.desc.Metadata, "service-info-metadata")
		want := len(e.desc.Methods) + len(e.desc.Streams)
		zv.Assert(len(si.Methods) == want, "service-info-method-count")
		if len(si.Methods) != want {
			continue
		}
		for i, md := range e.desc.Methods {
			mi := si.Methods[i]
			zv.Assert(mi.Name == md.MethodName && !mi.IsClientStream && !mi.IsServerStream, "service-info-unary-method")
		}
		for i, sd := range e.desc.Streams {
			mi := si.Methods[len(e.desc.Methods)+i]
			zv.Assert(mi.Name == sd.StreamName && mi.IsClientStream == sd.ClientStreams && mi.IsServerStream == sd.ServerStreams, "service-info-stream-method")
		}
	}
}

// Verif_C15_Registry: every sequence of up to N register operations (service name
// from {x,y,z}; well-typed, ill-typed or nil handler; descriptors with 0..2 unary
// and 0..2 streaming methods with symbolic flags), with the full observable state
// compared against a reference association list after every operation.
func Verif_C15_Registry() {
	nOps := zv.Param("ops", 3)
	m := HandlerMap{}
	var ref []verifRegEntry
	for i := 0; i < nOps; i++ {
		name := []string{"x", "y", "z"}[zv.Choose(fmt.Sprintf("op%d-name", i), 3)]
		// 0 good, 1 wrong type, 2 nil, 3 a non-pointer value of the good type: its
		// methods have pointer receivers, so the value itself does not implement the
		// service interface (a real grpc.Server refuses it too)
		kind := zv.Choose(fmt.Sprintf("op%d-handler", i), 4)
		d := verifMkDesc(name, i)
		var impl interface{}
		switch kind {
		case 0:
			impl = &verifSvcImpl{id: i}
		case 1:
			impl = &verifBadImpl{}
		case 3:
			impl = verifSvcImpl{id: i}
		}
		dup := verifFindRef(ref, name) != nil
		panicked := verifTryRegister(m, d, impl)
		if kind != 0 {
			zv.Reach("ill-typed")
			zv.Assert(panicked, "ill-typed-handler-refused")
		} else if dup {
			zv.Reach("duplicate")
			zv.Assert(panicked, "duplicate-registration-refused")
		} else {
			zv.Reach("registered")
			zv.Assert(!panicked, "fresh-well-typed-registration-accepted")
			ref = append(ref, verifRegEntry{name, d, impl})
		}
		verifCheckAgainstRef(m, ref)
	}
	zv.Observe("registered", len(ref))
}
