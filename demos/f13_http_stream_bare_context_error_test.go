package httpgrpc_test

import (
	"context"
	"fmt"
	"net"
	"net/http"
	"net/url"
	"testing"
	"time"

	"github.com/fullstorydev/grpchan"
	"github.com/fullstorydev/grpchan/grpchantesting"
	"github.com/fullstorydev/grpchan/httpgrpc"
	"google.golang.org/grpc/status"
)

type slowSvr struct {
	grpchantesting.UnimplementedTestServiceServer
}

func (s *slowSvr) ServerStream(req *grpchantesting.Message, ss grpchantesting.TestService_ServerStreamServer) error {
	ss.Send(&grpchantesting.Message{Count: 1})
	<-ss.Context().Done()
	return ss.Context().Err()
}

func TestF13(t *testing.T) {
	reg := grpchan.HandlerMap{}
	grpchantesting.RegisterTestServiceServer(reg, &slowSvr{})
	var mux http.ServeMux
	httpgrpc.HandleServices(mux.HandleFunc, "/", reg, nil, nil)
	l, _ := net.Listen("tcp", "127.0.0.1:0")
	hs := http.Server{Handler: &mux}
	go hs.Serve(l)
	defer hs.Close()
	u, _ := url.Parse(fmt.Sprintf("http://127.0.0.1:%d", l.Addr().(*net.TCPAddr).Port))
	cc := httpgrpc.Channel{Transport: http.DefaultTransport, BaseURL: u}
	cli := grpchantesting.NewTestServiceClient(&cc)
	ctx, cancel := context.WithCancel(context.Background())
	str, err := cli.ServerStream(ctx, &grpchantesting.Message{})
	if err != nil {
		t.Fatal(err)
	}
	if _, err := str.Recv(); err != nil {
		t.Fatal(err)
	}
	cancel()
	time.Sleep(200 * time.Millisecond) // the reader goroutine notices the cancellation
	for i := 0; i < 2; i++ {
		_, err = str.Recv()
		_, ok := status.FromError(err)
		t.Logf("Recv #%d after cancel: %T %v (grpc status: %v)", i, err, err, ok)
		if !ok {
			t.Errorf("non-status error after cancellation: %v", err)
		}
	}
}
