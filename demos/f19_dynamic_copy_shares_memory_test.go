// Demo for F19 (C18/C06): place in /repo/inprocgrpc and run
//   go test -vet=off -count=1 -run TestF19 ./inprocgrpc
// Fails before commit b2d053e ("fix: copies between dynamic and generated messages
// share no memory with the source"), passes with it.
package inprocgrpc

import (
	"testing"

	"github.com/jhump/protoreflect/dynamic"
	"google.golang.org/protobuf/types/known/anypb"

	"github.com/fullstorydev/grpchan/grpchantesting"
)

func f19msg() *grpchantesting.Message {
	return &grpchantesting.Message{Payload: []byte{1}, Headers: map[string][]byte{"h": {0}}, ErrorDetails: []*anypb.Any{{TypeUrl: "t", Value: []byte{7}}}}
}

func f19check(t *testing.T, out *grpchantesting.Message) {
	if out.Payload[0] != 1 {
		t.Errorf("payload bytes shared")
	}
	if out.Headers["h"][0] != 0 {
		t.Errorf("map value bytes shared")
	}
	if out.ErrorDetails[0].TypeUrl != "t" || out.ErrorDetails[0].Value[0] != 7 {
		t.Errorf("nested message shared: %v", out.ErrorDetails[0])
	}
}

// generated -> dynamic: mutate the source afterwards, look at the copy
func TestF19GeneratedIntoDynamic(t *testing.T) {
	src := f19msg()
	dst, err := dynamic.AsDynamicMessage(&grpchantesting.Message{Count: 5})
	if err != nil {
		t.Fatal(err)
	}
	if err := (ProtoCloner{}).Copy(dst, src); err != nil {
		t.Fatal(err)
	}
	src.Payload[0] = 0xff
	src.Headers["h"][0] = 0xff
	src.ErrorDetails[0].TypeUrl = "scrambled"
	src.ErrorDetails[0].Value[0] = 0xff
	out := &grpchantesting.Message{}
	if err := dst.ConvertTo(out); err != nil {
		t.Fatal(err)
	}
	f19check(t, out)
}

// dynamic -> generated: mutate the copy, look at the dynamic source
func TestF19DynamicIntoGenerated(t *testing.T) {
	dsrc, _ := dynamic.AsDynamicMessage(f19msg())
	out := &grpchantesting.Message{Count: 5}
	if err := (ProtoCloner{}).Copy(out, dsrc); err != nil {
		t.Fatal(err)
	}
	out.Payload[0] = 0xff
	out.Headers["h"][0] = 0xff
	out.ErrorDetails[0].TypeUrl = "scrambled"
	out.ErrorDetails[0].Value[0] = 0xff
	back := &grpchantesting.Message{}
	dsrc.ConvertTo(back)
	f19check(t, back)
}

// Clone of a dynamic message
func TestF19CloneOfDynamic(t *testing.T) {
	dsrc, _ := dynamic.AsDynamicMessage(f19msg())
	c, err := (ProtoCloner{}).Clone(dsrc)
	if err != nil {
		t.Fatal(err)
	}
	md := dsrc.GetMessageDescriptor()
	dsrc.GetField(md.FindFieldByName("payload")).([]byte)[0] = 0xff
	out := &grpchantesting.Message{}
	c.(*dynamic.Message).ConvertTo(out)
	if out.Payload[0] != 1 {
		t.Errorf("payload bytes shared")
	}
}
