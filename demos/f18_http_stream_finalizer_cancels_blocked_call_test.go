package httpgrpc_test

// F18: the HTTP client stream's wrapper carries a finalizer that cancels the call.
// Once a method of the wrapper has forwarded to the inner stream, nothing refers to
// the wrapper any more if the caller does not use the stream afterwards (as in
// `_, err := stream.Recv()` as the last use), so a GC cycle while RecvMsg is
// blocked runs the finalizer and the call fails with Canceled although nobody
// cancelled and no deadline passed. (This is what made the repository's own
// TestServer/half-duplex_bidi-stream/timeout fail about once in 100 runs with
// "Canceled != DeadlineExceeded".)
//
// Place in httpgrpc/ and run: go test -vet=off -count=1 -run TestF18 ./httpgrpc/

import (
	"context"
	"fmt"
	"net"
	"net/http"
	"net/url"
	"runtime"
	"testing"
	"time"

	"github.com/fullstorydev/grpchan"
	"github.com/fullstorydev/grpchan/grpchantesting"
	"github.com/fullstorydev/grpchan/httpgrpc"
)

type f18Svr struct {
	grpchantesting.UnimplementedTestServiceServer
}

func (s *f18Svr) ServerStream(req *grpchantesting.Message, ss grpchantesting.TestService_ServerStreamServer) error {
	time.Sleep(300 * time.Millisecond)
	return ss.Send(&grpchantesting.Message{Count: 1})
}

// the stream is not used after this call: from here on only the library holds it
func f18LastUse(str grpchantesting.TestService_ServerStreamClient) (*grpchantesting.Message, error) {
	return str.Recv()
}

func TestF18(t *testing.T) {
	reg := grpchan.HandlerMap{}
	grpchantesting.RegisterTestServiceServer(reg, &f18Svr{})
	var mux http.ServeMux
	httpgrpc.HandleServices(mux.HandleFunc, "/", reg, nil, nil)
	l, _ := net.Listen("tcp", "127.0.0.1:0")
	hs := http.Server{Handler: &mux}
	go hs.Serve(l)
	defer hs.Close()
	u, _ := url.Parse(fmt.Sprintf("http://127.0.0.1:%d", l.Addr().(*net.TCPAddr).Port))
	cc := httpgrpc.Channel{Transport: http.DefaultTransport, BaseURL: u}
	cli := grpchantesting.NewTestServiceClient(&cc)

	stop := make(chan struct{})
	defer close(stop)
	go func() {
		for {
			select {
			case <-stop:
				return
			default:
				runtime.GC()
				time.Sleep(5 * time.Millisecond)
			}
		}
	}()
	for i := 0; i < 5; i++ {
		str, err := cli.ServerStream(context.Background(), &grpchantesting.Message{})
		if err != nil {
			t.Fatal(err)
		}
		m, err := f18LastUse(str)
		if err != nil {
			t.Fatalf("call %d: Recv failed although nobody cancelled and there is no deadline: %v", i, err)
		}
		if m.Count != 1 {
			t.Fatalf("call %d: wrong message %v", i, m)
		}
	}
}
