package httpgrpc_test

import (
	"context"
	"fmt"
	"io"
	"net"
	"net/http"
	"net/url"
	"testing"

	"github.com/fullstorydev/grpchan"
	"github.com/fullstorydev/grpchan/grpchantesting"
	"github.com/fullstorydev/grpchan/httpgrpc"
	"google.golang.org/grpc/codes"
	"google.golang.org/grpc/status"
)

type earlySvr struct {
	grpchantesting.UnimplementedTestServiceServer
}

func (s *earlySvr) ClientStream(cs grpchantesting.TestService_ClientStreamServer) error {
	return status.Error(codes.Aborted, "not interested")
}

func TestF16(t *testing.T) {
	reg := grpchan.HandlerMap{}
	grpchantesting.RegisterTestServiceServer(reg, &earlySvr{})
	var mux http.ServeMux
	httpgrpc.HandleServices(mux.HandleFunc, "/", reg, nil, nil)
	l, _ := net.Listen("tcp", "127.0.0.1:0")
	hs := http.Server{Handler: &mux}
	go hs.Serve(l)
	defer hs.Close()
	u, _ := url.Parse(fmt.Sprintf("http://127.0.0.1:%d", l.Addr().(*net.TCPAddr).Port))
	cc := httpgrpc.Channel{Transport: http.DefaultTransport, BaseURL: u}
	cli := grpchantesting.NewTestServiceClient(&cc)
	bad := map[string]int{}
	for round := 0; round < 200; round++ {
		str, err := cli.ClientStream(context.Background())
		if err != nil {
			t.Fatal(err)
		}
		payload := make([]byte, 64*1024)
		for i := 0; i < 200; i++ {
			err = str.Send(&grpchantesting.Message{Payload: payload})
			if err != nil {
				break
			}
		}
		if err != nil && err != io.EOF {
			if _, ok := status.FromError(err); !ok {
				bad[err.Error()]++
			}
		}
		str.CloseAndRecv()
	}
	if len(bad) > 0 {
		t.Errorf("SendMsg after the handler finished returned errors that are neither nil, io.EOF nor a status: %v", bad)
	}
}
