// Demo for F20 (C10): place in /repo/inprocgrpc and run
//   go test -vet=off -count=1 -run TestF20 ./inprocgrpc
// Before the fix the handler of a unary in-process call whose context had already
// ended could see what the caller did to its outgoing metadata map AFTER Invoke had
// returned (the handler context, including the copy of the metadata, was built in
// the handler goroutine). The race is timing dependent natively, hence the
// repetitions; the engine finds it as a schedule and replays it pinned.
package inprocgrpc_test

import (
	"context"
	"testing"

	"google.golang.org/grpc"
	"google.golang.org/grpc/metadata"

	"github.com/fullstorydev/grpchan/grpchantesting"
	"github.com/fullstorydev/grpchan/inprocgrpc"
)

func TestF20MetadataNotReadAfterInvokeReturned(t *testing.T) {
	seen := make(chan []string, 1)
	sd := &grpc.ServiceDesc{
		ServiceName: "f20.S",
		HandlerType: (*interface{})(nil),
		Methods: []grpc.MethodDesc{{MethodName: "U", Handler: func(srv interface{}, ctx context.Context, dec func(interface{}) error, _ grpc.UnaryServerInterceptor) (interface{}, error) {
			in, _ := metadata.FromIncomingContext(ctx)
			seen <- append([]string(nil), in["k"]...)
			return &grpchantesting.Message{}, nil
		}}},
	}
	var ch inprocgrpc.Channel
	ch.RegisterService(sd, struct{}{})
	bad := 0
	const rounds = 3000
	for i := 0; i < rounds; i++ {
		ctx, cancel := context.WithCancel(context.Background())
		cancel() // the call's context has already ended: Invoke returns at once
		md := metadata.Pairs("k", "orig")
		err := ch.Invoke(metadata.NewOutgoingContext(ctx, md), "/f20.S/U", &grpchantesting.Message{}, &grpchantesting.Message{})
		if err == nil {
			<-seen
			continue
		}
		// Invoke has returned: the map is the caller's again
		md["k"][0] = "changed-after-the-call"
		got := <-seen // the handler goroutine runs regardless
		if len(got) != 1 || got[0] != "orig" {
			bad++
		}
	}
	if bad > 0 {
		t.Fatalf("in %d of %d calls the handler saw metadata the caller wrote after Invoke had returned", bad, rounds)
	}
}
