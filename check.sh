#!/bin/bash
# usage: check.sh <property-id> <quick|thorough> [extra gosym flags]
# Runs the gosym check of one property against /repo's current working tree.
export GOFLAGS=-mod=mod GOPROXY=off GOSUMDB=off GOTOOLCHAIN=local
cd /verif || exit 2
if [ ! -x /verif/bin/gosym ] || [ -n "$(find /verif/engine -name '*.go' -newer /verif/bin/gosym 2>/dev/null | head -1)" ]; then
  bash /verif/setup.sh >&2 || { echo "gosym: build failed" >&2; exit 2; }
fi
prop="$1"; tier="${2:-${VERIF_TIER:-quick}}"; shift; shift
# scratch copies live outside /repo and /verif and are removed by gosym itself
export GOSYM_TMP="${TMPDIR:-/tmp}"
repo="${GOSYM_REPO:-/repo}"
exec /verif/bin/gosym -repo "$repo" -prop "$prop" -tier "$tier" ${GOSYM_OUT:+-out "$GOSYM_OUT"} "$@"
